"""C04 -- answers do not depend on which positions were queried before.
Decides the memoisation discipline: no memo on a call cycle through a
re-entrancy-guarded ("provisional") function whose cycle exists by construction,
in-progress markers are reset on every exit, memo computations read only the
owning object's state, one resolution path for lint / evaluate / declarations.
"""
import ast

from ..core import AnalysisError, unparse, norm_stmt
from ..facts import get_facts
from ..callgraph import get_callgraph
from ..derive import Expander

EXPLANATION = (
    'Static memo-discipline analysis over the typed call graph of supp/. Memo sites are inventoried '
    '(cached_property, context_property, the try/except-AttributeError idiom, dict caches); provisional '
    'sources are functions that test an in-progress marker they set around a nested call and return a '
    'sentinel when it is set (LoopFlow.names -> UNRESOLVED, EvalCtx.evaluate -> None). R1: no memo site '
    'may lie on a typed call cycle through a provisional source whose cycle exists by construction '
    '(every loop gets a LoopFlow back edge), because the first query to arrive stores a table computed '
    'from the sentinel - which queries arrive first is the query order; a table kept per set of extents in progress is '
    'accepted when the guard registers itself where the key is taken from (removed in a finally), and the loop shapes of E1 '
    '(for / async for / while; compound, simple and nested-loop bodies) are rebuilt from supp\'s own Flow / LoopFlow objects: every '
    'read position is asked alone and after every other one (same answer required), and a lone answer is compared with the region '
    'graph; memo sites on cycles through '
    'EvalCtx.evaluate (guard against pathological input cycles only) are listed and excluded with the '
    'reason. R2: the in-progress marker of every provisional source is reset on every exit path. R3: '
    'lint, EvalCtx._evaluate and EvalCtx.declarations obtain the table of a read through '
    "names_at(np(read)) of the read's own region (one resolution path). R4: memo getters take no "
    'request-specific argument. R5: the memo sites on call cycles through EvalCtx.evaluate and the readers of the '
    'partial-table memos are compared with the sets triaged on the reference tree; a new one is reported. R6: a memo written '
    'in the try/except-AttributeError idiom stores exactly the value its first call returns. Equality of '
    'answers under concrete query orders beyond those shapes is NOT decided. R1 loop model: a fourth body mode with two-armed (if/else) body statements.')
TECHNIQUE = 'memo-site inventory + typed call-graph cycle analysis through re-entrancy-guarded functions + abstract interpretation of the memo decorators and of the evaluation guard'

SCOPE = 'supp/scope.py'
DEBUG_ONLY = ('check_names', 'dump_flows', 'usages')


def memo_sites(repo):
    """-> list of dict(key, kind, fi)"""
    facts = get_facts(repo)
    out = []
    keyed = keyed_memo_decorators(repo)
    for fi in facts.funcs.values():
        if 'cached_property' in fi.decorators:
            out.append({'key': fi.key, 'kind': 'cached_property', 'fi': fi})
        elif 'context_property' in fi.decorators:
            out.append({'key': fi.key, 'kind': 'context_property', 'fi': fi})
        elif any(d in keyed for d in fi.decorators):
            d = next(d for d in fi.decorators if d in keyed)
            out.append({'key': fi.key, 'kind': 'keyed memo (%s)' % d, 'fi': fi, 'key_attrs': keyed[d]})
        else:
            # try: return self._x / except AttributeError: ... self._x = v    (also: try: v = self._x; hasattr(self, '_x'))
            found = set()
            stores = {n.attr for n in ast.walk(fi.node) if isinstance(n, ast.Attribute) and isinstance(n.ctx, ast.Store)
                      and unparse(n.value) == 'self'}
            for t in ast.walk(fi.node):
                if isinstance(t, ast.Try) and len(t.body) == 1 and isinstance(t.body[0], ast.Return) \
                        and isinstance(t.body[0].value, ast.Attribute) and unparse(t.body[0].value.value) == 'self' \
                        and any(h.type is not None and 'AttributeError' in unparse(h.type) for h in t.handlers):
                    found.add(t.body[0].value.attr)
                elif fi.cls is None:
                    continue            # the memo decorators themselves (util.context_property) are interpreted, see R6
                elif isinstance(t, ast.Try) and any(h.type is not None and 'AttributeError' in unparse(h.type) for h in t.handlers):
                    for n in ast.walk(ast.Module(body=t.body, type_ignores=[])):
                        if isinstance(n, ast.Attribute) and isinstance(n.ctx, ast.Load) and unparse(n.value) == 'self' \
                                and n.attr in stores and fi.name != '__init__':
                            found.add(n.attr)
                elif isinstance(t, ast.Call) and unparse(t.func) == 'hasattr' and len(t.args) == 2 and unparse(t.args[0]) == 'self' \
                        and isinstance(t.args[1], ast.Constant) and t.args[1].value in stores and fi.name != '__init__':
                    found.add(t.args[1].value)
            for a in sorted(found):
                out.append({'key': fi.key, 'kind': 'attribute idiom (%s)' % a, 'fi': fi, 'attr': a})
    return out


def keyed_memo_decorators(repo):
    """Decorators defined in supp that turn a method into a property whose values are kept in a per-object table under a computed
    key (`memo[key] = func(self)` inside the getter).  -> {decorator name: attribute names the key is computed from}"""
    out = {}
    for rel, tree in repo.trees.items():
        for fn in tree.body:
            if not isinstance(fn, ast.FunctionDef) or fn.name in ('cached_property', 'context_property'):
                continue
            if not any(isinstance(r, ast.Return) and isinstance(r.value, ast.Call) and unparse(r.value.func) == 'property'
                       for r in ast.walk(fn)):
                continue
            for getter in [g for g in fn.body if isinstance(g, ast.FunctionDef)]:
                keys = set()
                for a in ast.walk(getter):
                    if isinstance(a, ast.Assign):
                        for t in a.targets:
                            if isinstance(t, ast.Subscript) and isinstance(t.slice, ast.Name):
                                keys.add(t.slice.id)
                            elif isinstance(t, ast.Subscript) and isinstance(t.slice, ast.IfExp):
                                # memo[k1 if <cond> else k2] = value: keyed by either (which one is used when is decided by the
                                # interpreted loop model, C04-R1)
                                keys.update(n.id for n in (t.slice.body, t.slice.orelse) if isinstance(n, ast.Name))
                attrs = set()
                for a in ast.walk(getter):
                    if isinstance(a, ast.Assign) and any(isinstance(t, ast.Name) and t.id in keys for t in a.targets):
                        attrs |= {n.attr for n in ast.walk(a.value) if isinstance(n, ast.Attribute)}
                if keys:
                    out[fn.name] = sorted(attrs)
    return out


_REPO = []


def registers_itself(guard_fn, attrs):
    """The guarded function puts its object into a registry named by one of `attrs` for the time of its extent (append/add, removed
    in a finally): a memo keyed by that registry separates what is computed during the extent from what is computed outside."""
    regs = set()
    for a in ast.walk(guard_fn):
        if isinstance(a, ast.Assign) and len(a.targets) == 1 and isinstance(a.targets[0], ast.Name) \
                and isinstance(a.value, ast.Attribute) and a.value.attr in attrs:
            regs.add(a.targets[0].id)
    def is_reg(e):
        return (isinstance(e, ast.Name) and e.id in regs) or (isinstance(e, ast.Attribute) and e.attr in attrs)
    puts = [c for c in ast.walk(guard_fn) if isinstance(c, ast.Call) and isinstance(c.func, ast.Attribute) and is_reg(c.func.value)
            and c.func.attr in ('append', 'add') and len(c.args) == 1 and unparse(c.args[0]) == 'self']
    takes = [c for c in ast.walk(guard_fn) if isinstance(c, ast.Call) and isinstance(c.func, ast.Attribute) and is_reg(c.func.value)
             and c.func.attr in ('pop', 'remove', 'discard')]
    if puts and takes and all(_in_finally(c, guard_fn) for c in takes):
        return True
    # ... or through a context manager object the guarded function enters: `with K(self, registry):` where K.__enter__ puts the
    # object it was given into the registry it was given and K.__exit__ takes it out again (done on every exit)
    facts = get_facts(_REPO[0]) if _REPO else None
    if facts is None:
        return False
    for w in ast.walk(guard_fn):
        if not isinstance(w, ast.With):
            continue
        for it_ in w.items:
            c = it_.context_expr
            if not (isinstance(c, ast.Call) and isinstance(c.func, ast.Name)):
                continue
            ci = facts.classes.get(c.func.id)
            if ci is None or not all(m in ci.methods for m in ('__init__', '__enter__', '__exit__')):
                continue
            params = [a.arg for a in ci.methods['__init__'].node.args.args[1:]]
            field_of = {}     # constructor parameter -> field
            for st in ast.walk(ci.methods['__init__'].node):
                if isinstance(st, ast.Assign) and len(st.targets) == 1 and isinstance(st.targets[0], ast.Attribute) \
                        and unparse(st.targets[0].value) == 'self' and isinstance(st.value, ast.Name) and st.value.id in params:
                    field_of[st.value.id] = st.targets[0].attr
            reg_f = obj_f = None
            for prm, a in zip(params, c.args):
                if is_reg(a):
                    reg_f = field_of.get(prm)
                elif unparse(a) == 'self':
                    obj_f = field_of.get(prm)
            if reg_f is None or obj_f is None:
                continue
            put = any(isinstance(x, ast.Call) and isinstance(x.func, ast.Attribute) and unparse(x.func.value) == 'self.' + reg_f
                      and x.func.attr in ('append', 'add') and len(x.args) == 1 and unparse(x.args[0]) == 'self.' + obj_f
                      for x in ast.walk(ci.methods['__enter__'].node))
            take = any(isinstance(x, ast.Call) and isinstance(x.func, ast.Attribute) and unparse(x.func.value) == 'self.' + reg_f
                       and x.func.attr in ('pop', 'remove', 'discard') for x in ast.walk(ci.methods['__exit__'].node))
            if put and take:
                return True
    return False


def provisional_sources(repo):
    """Functions guarded by an in-progress marker on self.  -> list of dict(fi, marker, sentinel, reset_safe)"""
    facts = get_facts(repo)
    out = []
    for fi in facts.funcs.values():
        if fi.cls is None:
            continue
        body = fi.node.body
        for i, st in enumerate(body):
            # `if <marker>: [bookkeeping;] return <sentinel>`
            if not (isinstance(st, ast.If) and st.body and isinstance(st.body[-1], ast.Return)
                    and all(isinstance(x, (ast.Expr, ast.Assign, ast.AugAssign)) for x in st.body[:-1])):
                continue
            marks = [n.attr for n in ast.walk(st.test) if isinstance(n, ast.Attribute)
                     and isinstance(n.value, ast.Name) and n.value.id == 'self']
            for mk in marks:
                # later: self.mk = True / self.mk.add(..)  ... then reset
                sets, resets = [], []
                # the marker may be set / cleared by another method of the class (the test in the reader, the mark around the writer)
                setters = [fi.node] + [m.node for m in fi.cls.methods.values() if m.node is not fi.node]
                where = {}
                for fn_ in setters:
                    for n in ast.walk(fn_):
                        if isinstance(n, ast.Assign) and any(unparse(t) == 'self.' + mk for t in n.targets) \
                                and isinstance(n.value, ast.Constant) and fn_.name != '__init__':
                            (sets if n.value.value else resets).append(n)
                            where[id(n)] = fn_
                    if sets and resets and fn_ is fi.node:
                        break
                for fn_ in setters:
                    found_here = False
                    for n in ast.walk(fn_):
                        if isinstance(n, ast.Call) and isinstance(n.func, ast.Attribute) \
                                and unparse(n.func.value) == 'self.' + mk and fn_.name != '__init__':
                            if n.func.attr in ('add', 'append'):
                                sets.append(n)
                                where[id(n)] = fn_
                                found_here = True
                            elif n.func.attr in ('remove', 'discard', 'pop'):
                                resets.append(n)
                                where[id(n)] = fn_
                                found_here = True
                    if found_here and fn_ is fi.node:
                        break
                exit_resets = set()
                if not (sets and resets):
                    # the pair may live in a context manager the guarded function enters: `with _Visit(self, node):` (a class of the
                    # module with __enter__ / __exit__ - what __exit__ does is done on every exit) or a @contextmanager generator
                    for w in ast.walk(fi.node):
                        if not isinstance(w, ast.With):
                            continue
                        for it_ in w.items:
                            c = it_.context_expr
                            if not isinstance(c, ast.Call):
                                continue
                            fname = unparse(c.func)
                            ci2 = facts.classes.get(fname)
                            bodies = []
                            if ci2 is not None and '__enter__' in ci2.methods and '__exit__' in ci2.methods:
                                bodies = [(ci2.methods['__enter__'].node, False), (ci2.methods['__exit__'].node, True)]
                            else:
                                h = fi.cls.lookup(fname[5:]) if fname.startswith('self.') else facts.module_funcs.get(fi.rel, {}).get(fname)
                                if h is not None and any('contextmanager' in d for d in h.decorators):
                                    bodies = [(h.node, False)]
                            for fn_, is_exit in bodies:
                                for n in ast.walk(fn_):
                                    if isinstance(n, ast.Call) and isinstance(n.func, ast.Attribute) and isinstance(n.func.value, ast.Attribute) \
                                            and n.func.value.attr == mk:
                                        if n.func.attr in ('add', 'append'):
                                            sets.append(n)
                                            where[id(n)] = fn_
                                        elif n.func.attr in ('remove', 'discard', 'pop'):
                                            resets.append(n)
                                            where[id(n)] = fn_
                                            if is_exit:
                                                exit_resets.add(id(n))
                                    elif isinstance(n, ast.Assign) and len(n.targets) == 1 and isinstance(n.targets[0], ast.Attribute) \
                                            and n.targets[0].attr == mk and isinstance(n.value, ast.Constant):
                                        (sets if n.value.value else resets).append(n)
                                        where[id(n)] = fn_
                                        if is_exit and not n.value.value:
                                            exit_resets.add(id(n))
                if sets and resets:
                    safe = all(id(r) in exit_resets or _in_finally(r, where.get(id(r), fi.node)) for r in resets)
                    split = any(where.get(id(x), fi.node) is not fi.node for x in sets + resets)
                    # completeness: no call may be made between the guard test and the first marker-set statement
                    first_set = min(x.lineno for x in sets) if not split else st.lineno
                    bypass = [c for c in ast.walk(fi.node) if isinstance(c, ast.Call) and st.lineno < c.lineno < first_set
                              and not any(c is y for y in ast.walk(st.test))
                              and unparse(c.func) not in ('isinstance', 'type', 'len', 'hasattr', 'getattr', 'frozenset', 'tuple', 'list', 'set', 'id')]
                    out.append({'fi': fi, 'marker': mk, 'sentinel': unparse(st.body[-1].value) if st.body[-1].value else 'None',
                                'reset_safe': safe, 'resets': resets, 'sets': sets, 'bypass': bypass})
    return out


def _in_finally(node, fn):
    child, p = node, getattr(node, '_parent', None)
    while p is not None and p is not fn:
        if isinstance(p, ast.Try) and any(child is s for s in p.finalbody):
            return True
        child, p = p, getattr(p, '_parent', None)
    return False


# guards whose cycle exists by construction of the data structure (armed unconditionally)
BY_CONSTRUCTION = {
    'LoopFlow.names': 'every for/while gets a LoopFlow back edge (nast.visit_For/visit_While call Flow.loop)',
}
EXCLUDED_GUARDS = {
    'EvalCtx.evaluate': 'the guard is keyed by node and only fires for genuinely cyclic definitions '
                        '(x = x, inheritance cycles); memo sites on its cycles are listed, not armed',
}


# memo sites on (typed or name-based) call cycles through EvalCtx.evaluate, triaged by reading on the reference tree.
# The guard of evaluate is keyed by node and fires only for genuinely cyclic definitions; each of these memos was read
# and no pair of query orders giving different answers could be constructed.  A memo site that is *not* on this list
# and appears on such a cycle has not been triaged: it is reported (the instances confirmed on the reference tree
# are the reference for any later change).
TRIAGED_EVAL_MEMOS = {
    'ArgumentName.resolve': 'first parameter of a method -> memoised instance of its class (no evaluate on the way back)',
    'AssignedAttribute.resolve': 'value of a self-assignment; cyclic only for self.x = self.x style definitions',
    'ClassObject._attrs': 'class table; bases are complete before the merge',
    'ClassObject.bases': 'base expressions are evaluated once per class object',
    'FuncObject.call': 'single-return value; the FuncObject itself is created per evaluation (FuncScope.resolve is not memoised), '
                       'so a value computed under the guard dies with the request',
    'ImportedName.resolve': 'module / attribute lookup (no evaluate of the importing file)',
    'InstanceValue._assigned_attrs': 'instance assignments along the bases',
    'InstanceValue._attrs': 'instance table',
    'MultiValue.get_rvalues': 'values of self-assignments',
    'SourceScope.assigns': 'grouping of attribute assignments by receiver',
}

# functions that read a memo which can hold a partial table (C04-R1 known findings), confirmed on the reference tree.
# A new reader spreads the partial table to a new place and is reported.
PARTIAL_MEMO_READERS = {
    'Flow.names': {'ClassObject._cls_attrs', 'Flow.parent_names', 'FuncScope.names', 'LoopFlow.names', 'SourceScope.names'},
    'Flow.parent_names': {'Flow.names', 'Flow.names_at'},
}



def retained_by_memoised_objects(repo, clsname):
    """Classes whose constructor stores an instance of `clsname` (a parameter annotated with it in the signature comment, or named
    after it) and that are constructed inside a memoised function. -> ['ClassObject.ctx (created in the memoised ClassScope.resolve)']"""
    if clsname is None:
        return []
    facts = get_facts(repo)
    memo_keys = {s['key']: s for s in memo_sites(repo)}
    out = []
    for ci in facts.classes.values():
        init = ci.methods.get('__init__')
        if init is None:
            continue
        params = [a.arg for a in init.node.args.args[1:]]
        # the signature comment `# type: (EvalCtx, ...) -> None` names the classes of the parameters
        sig = getattr(init.node, 'type_comment', None) or ''
        typed = []
        if sig.strip().startswith('('):
            inner = sig.strip()[1:].split(') ->')[0]
            depth, cur, parts = 0, '', []
            for ch in inner:
                if ch in '[(':
                    depth += 1
                elif ch in '])':
                    depth -= 1
                if ch == ',' and depth == 0:
                    parts.append(cur.strip())
                    cur = ''
                else:
                    cur += ch
            parts.append(cur.strip())
            typed = [p_ for p_, t_ in zip(params, parts) if clsname in t_]
        for a in init.node.args.args[1:]:
            if a.annotation is not None and clsname in unparse(a.annotation) and a.arg not in typed:
                typed.append(a.arg)
        kept = [unparse(st.targets[0]) for st in ast.walk(init.node) if isinstance(st, ast.Assign) and len(st.targets) == 1
                and isinstance(st.targets[0], ast.Attribute) and unparse(st.targets[0].value) == 'self'
                and isinstance(st.value, ast.Name) and st.value.id in typed]
        if not kept:
            continue
        for rel, tree in repo.trees.items():
            for c in ast.walk(tree):
                if isinstance(c, ast.Call) and unparse(c.func) == ci.name:
                    fi = facts.func_of(c)
                    if fi is not None and fi.key in memo_keys:
                        out.append('%s.%s (created in the memoised %s)' % (ci.name, kept[0].split('.', 1)[1], fi.qual))
    return sorted(set(out))

def rule_memo_inventory(repo, res, rule):
    cg = get_callgraph(repo)
    facts = get_facts(repo)
    sites = memo_sites(repo)
    g = 'supp/evaluator.py:EvalCtx.evaluate'
    if g not in cg.edges:
        raise AnalysisError('EvalCtx.evaluate vanished')
    fr = cg.reach(g, False)
    on = sorted({s['fi'].qual: s for s in sites if s['key'] in fr and g in cg.reach(s['key'], False)}.items())
    for q, s in on:
        res.check(rule, 'memo %s on an evaluation cycle' % q, q in TRIAGED_EVAL_MEMOS, s['fi'].rel, s['fi'].node.lineno,
                  '%s (%s) memoises a value computed on a call cycle through EvalCtx.evaluate, whose re-entrancy guard returns '
                  'None for a node already under evaluation; it is not among the memo sites triaged on the reference tree: a '
                  'value computed under the guard may be kept and served to later queries (which query comes first decides)'
                  % (q, s['kind']), sample='%s: %s' % (q, TRIAGED_EVAL_MEMOS.get(q)))
    res.count('memo_sites_on_evaluation_cycles', len(on), floor=8)
    # supporting fact of the triage of FuncObject.call ("a value computed under the guard dies with the request"): function objects
    # are made per evaluation - none is created inside a memoised function or kept on an object that outlives the evaluation
    memo_keys = {s['key'] for s in sites}
    nfo = 0
    for rel, tree in repo.trees.items():
        for c in ast.walk(tree):
            if isinstance(c, ast.Call) and unparse(c.func) == 'FuncObject':
                nfo += 1
                fi = facts.func_of(c)
                stored = isinstance(getattr(c, '_parent', None), ast.Assign) and \
                    any(isinstance(t, ast.Attribute) for t in c._parent.targets)
                res.check(rule, 'FuncObject created in %s' % (fi.qual if fi else rel), fi is not None and fi.key not in memo_keys and not stored,
                          rel, c.lineno, 'a FuncObject is created inside the memoised %s (or stored on an object): FuncObject.call memoises the '
                          'value of the return expression, also when it was evaluated under the recursion guard of EvalCtx.evaluate (None for '
                          'a function in a call cycle) - kept on the scope of a cached project module that truncated value is served to '
                          'every later request; which request came first decides' % (fi.qual if fi else '?'),
                          sample='FuncObject(...) in %s: created per evaluation' % (fi.qual if fi else '?'))
    res.count('funcobject_constructions', nfo, floor=1)
    for memo, known in sorted(PARTIAL_MEMO_READERS.items()):
        key = [k for k, fi in facts.funcs.items() if fi.qual == memo]
        if not key:
            continue
        rkeys = {k for k in cg.edges if any(c == key[0] and t for c, t, n in cg.edges[k])}
        readers = sorted({facts.funcs[k].qual for k in rkeys})
        accepted = set(known)
        # (a) a renamed reader: exactly one confirmed reader of a class vanished and exactly one new reader appeared in it
        vanished = [q for q in known if q not in readers]
        new = [q for q in readers if q not in known]
        for q in list(new):
            cls = q.split('.')[0]
            if len([v for v in vanished if v.split('.')[0] == cls]) == 1 and len([x for x in new if x.split('.')[0] == cls]) == 1:
                accepted.add(q)
        # (b) an extracted helper: a private function all of whose callers are accepted readers is part of their computation
        changed = True
        while changed:
            changed = False
            for k in rkeys:
                fi = facts.funcs[k]
                if fi.qual in accepted or not fi.name.startswith('_'):
                    continue
                callers = {facts.funcs[c].qual for c in cg.edges if c in facts.funcs and any(x == k for x, t, n in cg.edges[c])}
                if callers and callers <= accepted:
                    accepted.add(fi.qual)
                    changed = True
        for r in readers:
            res.check(rule, '%s reads %s' % (r, memo), r in accepted, 'supp/scope.py', 0,
                      '%s reads the memo %s, which can hold a table computed while a loop back edge was unresolved (C04-R1); '
                      'it is not among the readers confirmed on the reference tree: the partial table now reaches a new '
                      'consumer and its answers depend on the query order' % (r, memo),
                      sample='%s reads %s (confirmed reader)' % (r, memo), nontrivial=False)


def rule_provisional_memo(repo, res, rule, only_cycle=None):
    cg = get_callgraph(repo)
    sites = memo_sites(repo)
    provs = provisional_sources(repo)
    quals = {p['fi'].qual for p in provs}
    for need in BY_CONSTRUCTION:
        if need not in quals:
            # the guard vanished or changed shape: the cycle structure must be re-triaged
            facts = get_facts(repo)
            if any(fi.qual == need for fi in facts.funcs.values()):
                raise AnalysisError('%s no longer has the recognised re-entrancy guard shape; re-triage C04-R1' % need)
            raise AnalysisError('%s vanished' % need)
    n_arm = 0
    for p in provs:
        g = p['fi']
        if only_cycle and g.qual != only_cycle:
            continue
        if g.qual not in BY_CONSTRUCTION:
            if g.qual not in EXCLUDED_GUARDS:
                if not p['reset_safe']:
                    # whatever its cycle is: a marker that an exception leaves set makes the object answer its sentinel for ever
                    res.check('C04-R2', '%s resets %s' % (g.qual, p['marker']), False, g.rel, g.node.lineno,
                              '%s answers %s while the in-progress marker %s is set; the marker is cleared outside a finally: when the '
                              'guarded computation raises (a syntax error in a file it reads) the marker stays set and every later query '
                              'through the same object - it may live in a cache across requests - sees the sentinel instead of the real '
                              'value' % (g.qual, p['sentinel'], p['marker']))
                    continue
                raise AnalysisError('new re-entrancy-guarded function %s: triage whether its cycle exists by '
                                    'construction (C04-R1)' % g.qual)
            on = [s['fi'].qual for s in sites if g.key in cg.reach(s['key'], True) and s['key'] in cg.reach(g.key, True)]
            res.note('memo sites on typed cycles through %s (not armed: %s): %s'
                     % (g.qual, EXCLUDED_GUARDS[g.qual], ', '.join(sorted(on))))
            continue
        from_g = cg.reach(g.key, True)
        for s in sites:
            if s['key'] == g.key:
                continue       # the guard's own memo is written after the extent completes
            on_cycle = s['key'] in from_g and g.key in cg.reach(s['key'], True)
            if not (s['key'] in from_g):
                continue
            n_arm += 1
            key = '%s memo on cycle through %s' % (s['fi'].qual, g.qual)
            path = None
            if on_cycle:
                a = cg.path(g.key, s['key'], True) or []
                b = cg.path(s['key'], g.key, True) or []
                path = ' -> '.join(k.split(':')[1] for k in a + b[1:])
            if on_cycle and s['kind'].startswith('keyed memo'):
                # a table kept per set of extents in progress: what is computed while the guard answers its sentinel is stored
                # under another key than what is computed outside - provided the guard registers itself where the key is taken from
                _REPO[:] = [repo]
                ok = registers_itself(g.node, s['key_attrs'])
                res.check(rule, key, ok, s['fi'].rel, s['fi'].node.lineno,
                          '%s (%s) is filled while %s may be in progress and calls back into it (%s); its table is keyed by %s, but %s does '
                          'not register itself there for the time of its extent (put before the nested call, removed in a finally): values '
                          'computed against the %s sentinel are handed to later queries' % (
                              s['fi'].qual, s['kind'], g.qual, path, s['key_attrs'], g.qual, p['sentinel']),
                          sample='%s: table keyed by the extents in progress (%s); order independence of the loop shapes is decided by '
                                 'the loop model below' % (s['fi'].qual, ', '.join(s['key_attrs'])))
                continue
            if on_cycle and s['kind'] not in ('cached_property', 'context_property') \
                    and not s['kind'].startswith('attribute idiom'):
                raise AnalysisError('unrecognised memo discipline at %s' % s['key'])
            res.check(rule, key, not on_cycle, s['fi'].rel, s['fi'].node.lineno,
                      '%s (%s) is filled while %s may be in progress and calls back into it (%s): the value '
                      'stored by the first query omits what the %s sentinel stands for, so later queries of '
                      'other positions get a different table depending on which was asked first'
                      % (s['fi'].qual, s['kind'], g.qual, path, p['sentinel']),
                      sample='%s reachable from %s; calls back: %s' % (s['fi'].qual, g.qual, on_cycle))
    return n_arm


def run(repo, res):
    cg = get_callgraph(repo)
    sites = memo_sites(repo)
    provs = provisional_sources(repo)
    res.count('memo_sites', len(sites), floor=15)
    res.count('provisional_sources', len(provs), floor=2)
    res.extra['memo_sites'] = sorted('%s [%s]' % (s['fi'].qual, s['kind']) for s in sites)
    res.extra['provisional_sources'] = sorted('%s marker=%s sentinel=%s' % (p['fi'].qual, p['marker'], p['sentinel'])
                                              for p in provs)
    # ---- R1 --------------------------------------------------------------------------------
    n = rule_provisional_memo(repo, res, 'C04-R1')
    res.count('memo_sites_in_guarded_extent', n, floor=2)
    # the instances of that defect, per loop shape: which read positions of which loop constructs answer differently
    # depending on what was asked before (supp's own Flow / LoopFlow objects on the region graphs of E1)
    from .. import resolve_model as M
    from .. import rules_e1 as R
    recs, nq = M.loop_order_records(repo)
    seen = {}
    for cls, mode, asked, first, alone, after in recs:
        k = '%s, %s body statements: the answer at %s depends on what was asked first' % (R.method_name(repo, cls), mode, R.gen('node.' + asked)
                                                                                          if not asked.startswith('inside ') and asked != 'after the loop'
                                                                                          else asked.split('[')[0] + ('[*]' if '[' in asked else ''))
        if k in seen:
            continue
        seen[k] = (cls, asked, first, alone, after)
    for k, (cls, asked, first, alone, after) in sorted(seen.items()):
        line = R.method_line(repo, cls)
        res.check('C04-R1', k, False, line[0], line[1],
                  'in a %s loop, a name bound before the loop and again at the end of the body, another only at the end of the body: the read '
                  'at %s sees (x, y) = %s when asked first, %s when the read at %s was asked before it' % (cls, asked, alone, after, first))
    res.ob('C04-R1', 'loop shapes explored for order dependence', True, sample='%d lookups on the region graphs of for / async for / while, '
           'compound, simple and nested-loop body statements; %d order-dependent shapes' % (nq, len(seen)))
    res.count('loop_order_lookups', nq, floor=300)
    # the answer the order comparison starts from: a lone lookup agrees with what the region graph says (bindings of ancestor regions,
    # back edges included)
    seen_w = set()
    for cls, mode, asked, want, got in M.LOOP_ALONE_WRONG:
        k = '%s, %s body statements: a lone lookup at %s disagrees with the region graph' % (R.method_name(repo, cls), mode, asked.split('[')[0])
        if k in seen_w:
            continue
        seen_w.add(k)
        line = R.method_line(repo, cls)
        res.check('C04-R1', k, False, line[0], line[1],
                  'in a %s loop (a name x bound before the loop and at the end of the body, y only at the end of the body) the region graph '
                  'makes (x, y) = %s visible at %s, the lookup on a fresh graph answers %s: what is kept between the nested resolutions of '
                  'the back edges is not what a complete resolution gives' % (cls, want, asked, got))
    res.ob('C04-R1', 'lone lookups in loops agree with the region graph', not seen_w, sample='%d loop shapes x read positions' % nq)
    rule_memo_inventory(repo, res, 'C04-R5')

    # ---- R2 marker reset on every exit ----------------------------------------------------------
    for p in provs:
        g = p['fi']
        if g.qual not in BY_CONSTRUCTION:
            # a leak needs an exception escaping the guarded extent (assist / location may raise SyntaxError: a project module that
            # does not parse) *and* the guarded object outliving the request: armed when an instance is kept by an object that a
            # memoised function creates (ClassScope.resolve -> ClassObject(ctx, ...))
            keepers = retained_by_memoised_objects(repo, g.cls.name if g.cls is not None else None)
            if not keepers:
                res.note('%s resets its marker %s %s a finally; not armed: no object created in a memoised function keeps an instance'
                         % (g.qual, p['marker'], 'inside' if p['reset_safe'] else 'outside'))
                continue
            res.check('C04-R2', '%s resets %s' % (g.qual, p['marker']), p['reset_safe'], g.rel, g.node.lineno,
                      '%s clears its in-progress marker %s outside a finally, and its object outlives the request (%s): when the '
                      'guarded computation raises (a project module that does not parse - assist and location pass the SyntaxError on) '
                      'the node stays marked, and the next identical request is answered %s for it instead of the error or the real value '
                      '- a different answer to a repeated request' % (g.qual, p['marker'], '; '.join(keepers[:2]), p['sentinel']),
                      sample='%s: marker %s reset in a finally (kept by: %s)' % (g.qual, p['marker'], '; '.join(keepers[:2])))
            continue
        res.check('C04-R2', '%s resets %s' % (g.qual, p['marker']), p['reset_safe'], g.rel, g.node.lineno,
                  '%s clears its in-progress marker %s outside a finally: an exception inside the nested '
                  'call leaves the marker set, and every later query through the same object sees the '
                  'sentinel (%s) instead of the real value' % (g.qual, p['marker'], p['sentinel']),
                  sample='%s: marker %s reset in finally: %s' % (g.qual, p['marker'], p['reset_safe']))

    # ---- R3 one resolution path ------------------------------------------------------------------
    # (per module, not per function: the dispatch of the evaluator may live in a chain of tests, in helpers, in a table of functions)
    repo.module_func('supp/linter.py', 'lint')
    repo.method('supp/evaluator.py', 'EvalCtx', 'evaluate')
    for rel, label in (('supp/linter.py', 'lint'), ('supp/evaluator.py', 'the evaluator')):
        tree = repo.tree(rel)
        fns = [f for f in ast.walk(tree) if isinstance(f, (ast.FunctionDef, ast.AsyncFunctionDef))]
        texts, ok, nattrs = [], True, 0
        for fn in fns:
            if fn.name in DEBUG_ONLY:
                continue
            ex = Expander(fn)
            own = [n for n in ast.walk(fn) if not any(n is not f2 and isinstance(f2, (ast.FunctionDef, ast.AsyncFunctionDef)) and f2 is not fn
                                                      and any(n is y for y in ast.walk(f2)) for f2 in fns if f2 is not fn and any(f2 is z for z in ast.walk(fn)))]
            for c in own:
                if isinstance(c, ast.Call) and isinstance(c.func, ast.Attribute) and c.func.attr in ('names_at', 'names', 'parent_names'):
                    t = ex.text(c)
                    texts.append(t)
                    m = ast.parse(t, mode='eval').body
                    recv = unparse(m.func.value)
                    arg = unparse(m.args[0]) if m.args else ''
                    who = recv[:-5] if recv.endswith('.flow') else None
                    if who is None or arg not in ('np(%s)' % who, '(%s.lineno, %s.col_offset)' % (who, who)):
                        ok = False
                if isinstance(c, ast.Attribute) and c.attr in ('names', 'parent_names', '_names') and unparse(c.value).endswith('flow'):
                    nattrs += 1
        ok = ok and bool(texts) and not nattrs
        res.check('C04-R3', '%s resolution path' % label, ok, rel, 0,
                  "%s must obtain a read's table through names_at(np(read)) of the read's own region "
                  '(found %s%s)' % (label, texts or 'no names_at call', ', and %d direct reads of a region table' % nattrs if nattrs else ''),
                  sample='%s: %s' % (label, '; '.join(texts)[:120]))

    from .. import resolve_model as M
    M.check_same_line(repo, res, 'C04-R3')
    # ---- R4 memo getters take no request-specific argument ------------------------------------------
    for s in sites:
        fi = s['fi']
        params = [a.arg for a in fi.node.args.args]
        if s['kind'] == 'cached_property':
            ok = params == ['self']
        elif s['kind'] == 'context_property':
            ok = params == ['self', 'ctx']
        else:
            ok = not any(p in ('position', 'source', 'loc', 'location') for p in params)
        res.check('C04-R4', '%s arguments' % fi.qual, ok, fi.rel, fi.node.lineno,
                  'memo %s (%s) is keyed by nothing but takes arguments %s: a value computed for one request '
                  'would be served to another' % (fi.qual, s['kind'], params), nontrivial=False)
    # ---- R6 a memo returns on the first call what it stores for the later ones ---------------------------------
    for s_ in sites:
        if not s_['kind'].startswith('attribute idiom'):
            continue
        fi = s_['fi']
        attr = s_['attr']
        stores = [n for n in ast.walk(fi.node) if isinstance(n, ast.Assign)
                  and any(unparse(t) == 'self.' + attr for t in n.targets)]
        rets = [n for n in fi.node.body if isinstance(n, ast.Return)]
        ok = True
        why = ''
        if not stores or not rets:
            ok, why = False, 'no store or no final return'
        else:
            last_ret = rets[-1]
            for st in ([] if unparse(last_ret.value) == 'self.' + attr else stores):
                # the stored expression: a variable, or a chained assignment `result = self._x = expr`
                names = [unparse(t) for t in st.targets if isinstance(t, ast.Name)]
                stored = unparse(st.value) if isinstance(st.value, ast.Name) else (names[0] if names else None)
                if isinstance(st.value, ast.Constant):
                    continue        # placeholder store (e.g. self._instance = None before the computation)
                if stored is None:
                    ok, why = False, 'the stored value `%s` is not a variable the function returns' % unparse(st.value)
                    break
                later = [n for n in ast.walk(fi.node) if isinstance(n, (ast.Assign, ast.AugAssign))
                         and n.lineno > st.lineno and any(unparse(t) == stored for t in
                                                          (n.targets if isinstance(n, ast.Assign) else [n.target]))]
                if later:
                    ok, why = False, '`%s` is reassigned at line %d after it was stored' % (stored, later[0].lineno)
                    break
                if unparse(last_ret.value) not in (stored, 'self.' + attr):
                    ok, why = False, 'returns `%s` but stores `%s`' % (unparse(last_ret.value), stored)
                    break
        res.check('C04-R6', '%s stores what it returns' % fi.qual, ok, fi.rel, fi.node.lineno,
                  'the memo %s (attribute %s) does not store the value its first call returns (%s): repeated identical queries '
                  'get different answers' % (fi.qual, attr, why), sample='%s: first-call value == memoised value' % fi.qual)

    from .. import api_model
    api_model.apply(res, api_model.memo_decorator_model(repo), {'memo': 'C04-R6'}, 'supp/util.py', 0)
    api_model.apply(res, api_model.evaluate_model(repo), {'guard': 'C04-R2'}, 'supp/evaluator.py', 0)

    # context_property ignores ctx in its key: ctx may only carry the project and the re-entrancy state
    ectx = get_facts(repo).classes.get('EvalCtx')
    if ectx is None:
        raise AnalysisError('EvalCtx vanished')
    fields = sorted(ectx.init_attrs | ectx.other_attrs)
    res.check('C04-R4', 'EvalCtx fields', set(fields) <= {'project', 'level', 'nodes'}, ectx.rel, ectx.node.lineno,
              'context_property memos outlive the EvalCtx they were computed with; EvalCtx may carry only the '
              'project and the re-entrancy state, found fields %s' % fields)
    res.assumptions.extend([
        'typed call graph from the repository\'s own # type: comments (untyped edges are not used for cycles)',
        'cycles through EvalCtx.evaluate are not armed (guard fires only on cyclic definitions); listed in notes',
    ])
