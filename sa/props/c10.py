"""C10 -- unused-name diagnostics follow the exemption rules exactly.
Decides the exemption chain as a complete decision table.
"""
import ast

from ..core import AnalysisError, unparse, qualname
from .. import rules_e1 as R

EXPLANATION = (
    "Decision-table analysis of lint by abstract interpretation (sa/api_model.py). R1: linter.lint is interpreted on a stub "
    'analysis holding exactly one binding, once for every consistent valuation of nine boolean facts about the binding and '
    'its region (marked used, leading underscore, star import, region in module/class scope, is an import, from __future__, '
    'top-level name read through a dotted import, is a parameter, enclosing scope is a class; class-hierarchy and syntax facts '
    'prune impossible ones; 176 rows): the diagnostics must equal the reference function valuation -> {none, W01, W02} written '
    'from the property statement, row by row; R2 (E1) every '
    'binder kind constructs the Name class the atoms test (parameters ArgumentName, imports ImportedName with '
    '`qualified` exactly for un-aliased dotted imports and `is_star` exactly for star-import copies, everything '
    'else neither); R3 each report carries the binding\'s own name and declared_at (interpreted: distinctive positions), '
    'two unused bindings give one report each, SourceScope.all_names (interpreted on a scope built by supp\'s constructors) '
    'yields every stored binding once with its region; R4 `.used` is written only by use_name and a call of the builtin '
    'locals() marks exactly the bindings of its own scope (interpreted). Whether `used` is set for the right bindings is C02.')
TECHNIQUE = 'abstract interpretation of lint on one-binding stub analyses for every consistent valuation of the exemption facts, against a reference table'

LINTER = 'supp/linter.py'


def run(repo, res):
    _ns, _np = R.shape_stats(repo)
    res.extra['e1_shapes_interpreted'] = _ns
    res.extra['e1_shape_paths_interpreted'] = _np
    lint = repo.module_func(LINTER, 'lint')
    from .. import api_model
    recs = api_model.lint_model(repo)
    api_model.apply(res, recs, {'table': 'C10-R1', 'rows': 'C10-R1', 'fields': 'C10-R3', 'once': 'C10-R3',
                                    'locals': 'C10-R4'}, LINTER, lint.lineno)
    res.count('decision_rows', sum(1 for r in recs if r[0] == 'table'), floor=150)

    # ---- R2 binder -> class -------------------------------------------------------------------------
    brecs = R.binder_records(repo)
    for (cls, kind, path), r in sorted(brecs.items()):
        if r['n'] == 0 or r['missing']:
            continue
        key = '%s %s %s' % (R.method_name(repo, cls), kind, path)
        want = R.EXPECTED_CLASS[kind]
        bad = [c for _, c in r['wrong_class']]
        res.check('C10-R2', key + ' class', not bad, r['line'][0], r['line'][1],
                  'a %s binding must be a %s (the exemption chain tests the class); found %s' % (kind, want, bad[:1]),
                  sample='%s -> %s' % (key, want), nontrivial=False)
        if kind == 'import':
            for s, bp, binder, b in r['binds']:
                al = binder['node']
                dotted = '.' in str(al.fields['name']) and al.fields['asname'] is None
                ok = bool(b.get('qualified')) == dotted and not b.get('is_star')
                res.check('C10-R2', key + ' qualified flag (%s)' % ('dotted' if dotted else 'plain/aliased'), ok,
                          r['line'][0], r['line'][1],
                          '`qualified` must be set exactly for un-aliased dotted imports (import a.b), found %r for %s'
                          % (b.get('qualified'), str(al.fields['name'])), nontrivial=False)
        if kind == 'from-import':
            for s, bp, binder, b in r['binds']:
                res.check('C10-R2', key + ' flags', not b.get('qualified') and not b.get('is_star'), r['line'][0],
                          r['line'][1], 'a from-import binding is neither qualified nor a star copy', nontrivial=False)
    # the position a report carries is the binding's own declared_at: for binders with a node of their own it must be that
    # node's parser position (shared with C11-R1)
    from .. import pyref
    from ..e1 import loc_kind
    for (cls, kind, path), r in sorted(brecs.items()):
        if r['n'] == 0 or r['missing'] or kind not in pyref.PARSER_POSITIONED:
            continue
        bad = []
        for s_, bp, binder, b in r['binds']:
            lk = loc_kind(b.get('declared_at'))
            own = binder['own']
            if not (lk[0] == 'np' and own is not None and lk[1] == own.path):
                bad.append((s_.variant, lk[:2]))
        res.check('C10-R3', '%s %s %s position' % (R.method_name(repo, cls), kind, path), not bad, r['line'][0], r['line'][1],
                  'an unused-name report for this binding would carry %s instead of the position of the identifier' % (bad[:1],),
                  nontrivial=False)
    rsi = repo.method('supp/scope.py', 'SourceScope', 'resolve_star_imports')
    calls = [c for c in ast.walk(rsi) if isinstance(c, ast.Call) and unparse(c.func) == 'ImportedName']
    ok = len(calls) == 1 and (len(calls[0].args) >= 6 and unparse(calls[0].args[5]) == 'True'
                              or any(k.arg == 'is_star' and unparse(k.value) == 'True' for k in calls[0].keywords))
    res.check('C10-R2', 'star-import copies carry is_star', ok, 'supp/scope.py', rsi.lineno,
              'names copied from a star import must be marked is_star (they are never reported as unused)')

    # ---- R3 reported fields / each binding once -----------------------------------------------------
    api_model.apply(res, api_model.all_names_model(repo), {'all_names': 'C10-R3'}, 'supp/scope.py', 0)

    nreg = 0
    for cls, r in sorted(R.registration_records(repo).items()):
        nreg += r['n']
        res.check('C10-R3', '%s regions are registered with the module scope' % R.method_name(repo, cls), not r['bad'], r['line'][0],
                  r['line'][1], 'the region(s) %s created while visiting %s are not registered with the module scope: all_names never '
                  'enumerates the bindings made there, so an unused name bound in them is never reported'
                  % (sorted({b for _v, b in r['bad']})[:3], cls), sample='%s: every created region is enumerated by all_names' % cls,
                  nontrivial=False)
    res.count('registered_regions', nreg, floor=800)

    # ... and no child is handed to the visitor twice: what it registers (a lambda's scope, a comprehension variable, a walrus) would be
    # registered - and, when never read, reported - twice
    nvis = 0
    for cls, r in sorted(R.double_visit_records(repo).items()):
        nvis += r['n']
        res.check('C10-R3', '%s visits no child twice' % R.method_name(repo, cls), not r['twice'], r['line'][0], r['line'][1],
                  'on the shape `%s` the child %s of %s is visited twice on one path: every scope and binding created inside it (the '
                  'parameters of a lambda, a comprehension variable, a walrus target) is registered twice and an unused one is reported '
                  'twice with identical name, kind and position' % ((r['twice'] or [('', '')])[0][0], (r['twice'] or [('', '')])[0][1], cls),
                  sample='%s: every child is visited at most once per path' % cls, nontrivial=False)
    res.count('child_visits', nvis, floor=5000)

    # ---- R4 .used single writer -----------------------------------------------------------------------
    writers = []
    for rel, tree in repo.trees.items():
        for nd in ast.walk(tree):
            if isinstance(nd, ast.Attribute) and nd.attr == 'used' and isinstance(nd.ctx, (ast.Store, ast.Del)):
                writers.append((rel, qualname(nd), nd.lineno))
            if isinstance(nd, ast.Call) and unparse(nd.func) in ('setattr', 'delattr') and len(nd.args) >= 2 \
                    and unparse(nd.args[1]) == "'used'":
                writers.append((rel, qualname(nd), nd.lineno))
    for rel, q, line in writers:
        res.check('C10-R4', '.used written in %s' % q, (rel, q) == (LINTER, 'use_name'), rel, line,
                  'the used flag may be set only by linter.use_name (found in %s)' % q)
    res.count('used_writers', len(writers), floor=2)
    res.assumptions.extend([
        '"parameter of a method" = parameter of a def or lambda whose enclosing scope is a class body',
        'global-declared bindings are not locals and are never candidates',
        'whether `used` is set for the right bindings is C02; the "never read anywhere in the file" premise is not decided',
    ])
