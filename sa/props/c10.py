"""C10 -- unused-name diagnostics follow the exemption rules exactly.
Decides the exemption chain as a complete decision table.
"""
import ast
import itertools

from ..core import AnalysisError, unparse, qualname
from .. import rules_e1 as R

EXPLANATION = (
    "Static decision-table analysis of lint's report loop. R1: the chain of `if ...: continue` statements is "
    'read into boolean atoms over the binding and its region (marked used, leading underscore, star import, '
    'region in module/class scope, is an import, from __future__, top-level name used through a dotted import, '
    'is a parameter, enclosing scope is a class) and evaluated path-sensitively for every consistent valuation '
    '(class-hierarchy and syntax facts prune impossible ones); the resulting function valuation -> {none, W01, '
    'W02} must equal the reference function written from the property statement, row by row; R2 (E1) every '
    'binder kind constructs the Name class the atoms test (parameters ArgumentName, imports ImportedName with '
    '`qualified` exactly for un-aliased dotted imports and `is_star` exactly for star-import copies, everything '
    'else neither); R3 the report carries the binding\'s own name and declared_at and the loop enumerates each '
    'binding once; R4 `.used` is written only by use_name. Whether `used` is set for the right bindings is C02.')
TECHNIQUE = 'decision-table extraction from the AST + exhaustive valuation enumeration against a reference table'

LINTER = 'supp/linter.py'
ATOMS = ['USED', 'UNDERSCORE', 'IS_STAR', 'MODCLASS', 'IS_IMPORT', 'FUTURE', 'QUALIFIED', 'IS_PARAM', 'PARENT_CLASS']


def atom_of(e, env):
    """Condition expression -> atom name, or raise."""
    t = unparse(e)
    if isinstance(e, ast.Call):
        f = unparse(e.func)
        a = [unparse(x) for x in e.args]
        if f == 'hasattr' and a == ['name', "'used'"]:
            return 'USED'
        if f == 'getattr' and a[:2] == ['name', "'used'"]:
            return 'USED'
        if f == 'name.name.startswith' and a == ["'_'"]:
            return 'UNDERSCORE'
        if f == 'getattr' and a[:2] == ['name', "'is_star'"]:
            return 'IS_STAR'
        if f == 'isinstance' and len(e.args) == 2:
            classes = env.get(a[1], a[1])
            if a[0] == 'flow.scope' and set(classes_of(classes)) == {'SourceScope', 'ClassScope'}:
                return 'MODCLASS'
            if a[0] == 'name' and classes_of(classes) == ['ImportedName']:
                return 'IS_IMPORT'
            if a[0] == 'name' and classes_of(classes) == ['ArgumentName']:
                return 'IS_PARAM'
            if a[0] == 'flow.scope.parent' and classes_of(classes) == ['ClassScope']:
                return 'PARENT_CLASS'
    if t in ("name.module == '__future__'", "'__future__' == name.module"):
        return 'FUTURE'
    if t == 'name.name in qualified_imports':
        return 'QUALIFIED'
    if t == 'name.is_star':
        return 'IS_STAR'
    raise AnalysisError('lint report loop: unrecognised exemption condition `%s`' % t)


def classes_of(txt):
    txt = txt.strip()
    if txt.startswith('('):
        txt = txt[1:-1]
    return [x.strip() for x in txt.split(',') if x.strip()]


def ev(e, val, env):
    if isinstance(e, ast.BoolOp):
        vs = [ev(x, val, env) for x in e.values]
        return all(vs) if isinstance(e.op, ast.And) else any(vs)
    if isinstance(e, ast.UnaryOp) and isinstance(e.op, ast.Not):
        return not ev(e.operand, val, env)
    return val[atom_of(e, env)]


class _Continue(Exception):
    pass


def run_body(stmts, val, env, state):
    for st in stmts:
        if isinstance(st, ast.Assign) and len(st.targets) == 1 and isinstance(st.targets[0], ast.Name):
            state[st.targets[0].id] = st.value
        elif isinstance(st, ast.If):
            run_body(st.body if ev(st.test, val, env) else st.orelse, val, env, state)
        elif isinstance(st, ast.Continue):
            raise _Continue()
        elif isinstance(st, ast.Expr) and isinstance(st.value, ast.Call) and unparse(st.value.func) == 'result.append':
            state['__report__'] = st.value.args[0]
        elif isinstance(st, ast.Expr) and isinstance(st.value, ast.Constant):
            continue
        elif isinstance(st, ast.Pass):
            continue
        else:
            raise AnalysisError('lint report loop: unrecognised statement `%s`' % unparse(st)[:60])


def consistent(v):
    if v['IS_STAR'] and not v['IS_IMPORT']:
        return False
    if v['FUTURE'] and not v['IS_IMPORT']:
        return False
    if v['QUALIFIED'] and not v['IS_IMPORT']:
        return False
    if v['IS_PARAM'] and v['IS_IMPORT']:
        return False
    if v['IS_PARAM'] and v['MODCLASS']:
        return False          # parameters live in the function's own region
    if v['IS_STAR'] and not v['MODCLASS']:
        return False          # import * is a SyntaxError outside module level
    if v['FUTURE'] and not v['MODCLASS']:
        return False          # from __future__ only at module level
    if v['PARENT_CLASS'] and v['MODCLASS']:
        # region's scope is module/class: "its parent is a class" only for a class nested in a class; keep
        pass
    return True


def reference(v):
    """From the property statement."""
    if v['USED']:
        return None
    if not v['MODCLASS']:
        # a local of a function or lambda
        if v['UNDERSCORE']:
            return None
        if v['IS_PARAM'] and v['PARENT_CLASS']:
            return None       # parameter of a method
        return 'W01'
    # module or class level: only imports are reported
    if v['IS_IMPORT'] and not v['UNDERSCORE'] and not v['FUTURE'] and not v['IS_STAR'] and not v['QUALIFIED']:
        return 'W02'
    return None


def run(repo, res):
    _ns, _np = R.shape_stats(repo)
    res.extra['e1_shapes_interpreted'] = _ns
    res.extra['e1_shape_paths_interpreted'] = _np
    lint = repo.module_func(LINTER, 'lint')
    loops = [n for n in lint.body if isinstance(n, ast.For) and 'all_names' in unparse(n.iter)]
    if len(loops) != 1:
        raise AnalysisError('lint: report loop over scope.all_names not found')
    loop = loops[0]
    if unparse(loop.target) != '(flow, name)' and unparse(loop.target) != 'flow, name':
        raise AnalysisError('lint: report loop target changed: %s' % unparse(loop.target))
    # module constants used in conditions
    env = {}
    for st in repo.tree(LINTER).body:
        if isinstance(st, ast.Assign) and isinstance(st.targets[0], ast.Name):
            env[st.targets[0].id] = unparse(st.value)
    rows = 0
    diffs = []
    for bits in itertools.product([False, True], repeat=len(ATOMS)):
        v = dict(zip(ATOMS, bits))
        if not consistent(v):
            continue
        rows += 1
        state = {}
        try:
            run_body(loop.body, v, env, state)
            rep = state.get('__report__')
            got = None
            if rep is not None:
                code = rep.elts[0]
                if isinstance(code, ast.Name):
                    code = state.get(code.id)
                got = code.value if isinstance(code, ast.Constant) else unparse(code)
        except _Continue:
            got = None
        want = reference(v)
        ok = got == want
        on = [a for a in ATOMS if v[a]]
        if not ok:
            diffs.append((on, got, want))
        res.ob('C10-R1', 'row ' + ('+'.join(on) or 'none'), ok,
               sample='%s -> %s' % ('+'.join(on) or '(plain unused local/global)', want))
    res.count('decision_rows', rows, floor=60)
    if diffs:
        # report the smallest differing rows
        diffs.sort(key=lambda d: len(d[0]))
        for on, got, want in diffs[:5]:
            res.fail('C10-R1', 'row ' + ('+'.join(on) or 'none'), LINTER, loop.lineno,
                     'exemption chain differs from the stated rules for a binding with atoms {%s}: lint reports %s, the '
                     'statement requires %s' % (', '.join(on) or 'none', got, want))

    # ---- R2 binder -> class -------------------------------------------------------------------------
    brecs = R.binder_records(repo)
    for (cls, kind, path), r in sorted(brecs.items()):
        if r['n'] == 0 or r['missing']:
            continue
        key = '%s %s %s' % (R.method_name(repo, cls), kind, path)
        want = R.EXPECTED_CLASS[kind]
        bad = [c for _, c in r['wrong_class']]
        res.check('C10-R2', key + ' class', not bad, r['line'][0], r['line'][1],
                  'a %s binding must be a %s (the exemption chain tests the class); found %s' % (kind, want, bad[:1]),
                  sample='%s -> %s' % (key, want), nontrivial=False)
        if kind == 'import':
            for s, bp, binder, b in r['binds']:
                al = binder['node']
                dotted = '.' in str(al.fields['name']) and al.fields['asname'] is None
                ok = bool(b.get('qualified')) == dotted and not b.get('is_star')
                res.check('C10-R2', key + ' qualified flag (%s)' % ('dotted' if dotted else 'plain/aliased'), ok,
                          r['line'][0], r['line'][1],
                          '`qualified` must be set exactly for un-aliased dotted imports (import a.b), found %r for %s'
                          % (b.get('qualified'), str(al.fields['name'])), nontrivial=False)
        if kind == 'from-import':
            for s, bp, binder, b in r['binds']:
                res.check('C10-R2', key + ' flags', not b.get('qualified') and not b.get('is_star'), r['line'][0],
                          r['line'][1], 'a from-import binding is neither qualified nor a star copy', nontrivial=False)
    # the position a report carries is the binding's own declared_at: for binders with a node of their own it must be that
    # node's parser position (shared with C11-R1)
    from .. import pyref
    from ..e1 import loc_kind
    for (cls, kind, path), r in sorted(brecs.items()):
        if r['n'] == 0 or r['missing'] or kind not in pyref.PARSER_POSITIONED:
            continue
        bad = []
        for s_, bp, binder, b in r['binds']:
            lk = loc_kind(b.get('declared_at'))
            own = binder['own']
            if not (lk[0] == 'np' and own is not None and lk[1] == own.path):
                bad.append((s_.variant, lk[:2]))
        res.check('C10-R3', '%s %s %s position' % (R.method_name(repo, cls), kind, path), not bad, r['line'][0], r['line'][1],
                  'an unused-name report for this binding would carry %s instead of the position of the identifier' % (bad[:1],),
                  nontrivial=False)
    rsi = repo.method('supp/scope.py', 'SourceScope', 'resolve_star_imports')
    calls = [c for c in ast.walk(rsi) if isinstance(c, ast.Call) and unparse(c.func) == 'ImportedName']
    ok = len(calls) == 1 and (len(calls[0].args) >= 6 and unparse(calls[0].args[5]) == 'True'
                              or any(k.arg == 'is_star' and unparse(k.value) == 'True' for k in calls[0].keywords))
    res.check('C10-R2', 'star-import copies carry is_star', ok, 'supp/scope.py', rsi.lineno,
              'names copied from a star import must be marked is_star (they are never reported as unused)')

    # ---- R3 reported fields / each binding once -----------------------------------------------------
    rep = None
    for nd in ast.walk(loop):
        if isinstance(nd, ast.Call) and unparse(nd.func) == 'result.append':
            rep = nd.args[0]
    ok = False
    if isinstance(rep, ast.Tuple) and len(rep.elts) >= 4:
        t = [unparse(e) for e in rep.elts]
        ok = t[0] == 'w' and 'name.name' in t[1] and t[2] == 'name.declared_at[0]' and t[3] == 'name.declared_at[1]'
    res.check('C10-R3', 'report fields', ok, LINTER, loop.lineno,
              "a report must be (code, message with the binding's own name, its declared_at line, column, ...)")
    an = repo.method('supp/scope.py', 'SourceScope', 'all_names')
    txt = unparse(an)
    ok = 'for flow in self._all_flows' in txt and 'for name in flow._names' in txt
    res.check('C10-R3', 'all_names enumerates each region once', ok, 'supp/scope.py', an.lineno,
              'all_names must yield each element of each region\'s binding list exactly once')
    adders = []
    for rel, tree in repo.trees.items():
        for nd in ast.walk(tree):
            if isinstance(nd, ast.Call) and isinstance(nd.func, ast.Attribute) and nd.func.attr in ('append', 'extend', 'insert') \
                    and unparse(nd.func.value).endswith('_all_flows'):
                adders.append((rel, qualname(nd), nd.lineno))
    ok = {q for _, q, _ in adders} <= {'SourceScope.add_flow'}
    res.check('C10-R3', 'regions registered once', ok and bool(adders), 'supp/scope.py', adders[0][2] if adders else 0,
              'regions must enter _all_flows only through add_flow (each once); writers: %s' % adders, nontrivial=False)

    # ---- R4 .used single writer -----------------------------------------------------------------------
    writers = []
    for rel, tree in repo.trees.items():
        for nd in ast.walk(tree):
            if isinstance(nd, ast.Attribute) and nd.attr == 'used' and isinstance(nd.ctx, (ast.Store, ast.Del)):
                writers.append((rel, qualname(nd), nd.lineno))
            if isinstance(nd, ast.Call) and unparse(nd.func) in ('setattr', 'delattr') and len(nd.args) >= 2 \
                    and unparse(nd.args[1]) == "'used'":
                writers.append((rel, qualname(nd), nd.lineno))
    for rel, q, line in writers:
        res.check('C10-R4', '.used written in %s' % q, (rel, q) == (LINTER, 'use_name'), rel, line,
                  'the used flag may be set only by linter.use_name (found in %s)' % q)
    res.count('used_writers', len(writers), floor=2)
    # the locals() special case marks exactly the bindings of the scope the call is made in
    lint_fn = repo.module_func(LINTER, 'lint')
    special = [n for n in ast.walk(lint_fn) if isinstance(n, ast.If) and "'locals'" in unparse(n.test)]
    ok = False
    detail = ''
    if len(special) == 1:
        loops = [n for n in ast.walk(ast.Module(body=special[0].body, type_ignores=[])) if isinstance(n, ast.For)]
        if len(loops) == 1 and 'names_at' in unparse(loops[0].iter):
            v = unparse(loops[0].target)
            conds = [n for n in loops[0].body if isinstance(n, ast.If)]
            if len(conds) == 1 and len(loops[0].body) == 1:
                detail = unparse(conds[0].test)
                same_scope = detail in ("getattr(%s, 'scope', None) is flow.scope" % v, '%s.scope is flow.scope' % v,
                                        "getattr(%s, 'scope', None) == flow.scope" % v, '%s.scope == flow.scope' % v)
                marks = [c for c in ast.walk(conds[0]) if isinstance(c, ast.Call) and unparse(c.func) == 'use_name'
                         and unparse(c.args[0]) == v]
                ok = same_scope and len(marks) == 1 and not conds[0].orelse
    res.check('C10-R4', 'locals() marks the bindings of its own scope only', ok, LINTER,
              special[0].lineno if special else lint_fn.lineno,
              'a call of locals() must mark as used exactly the bindings of the scope it is made in (filter `%s`): marking '
              'the names of enclosing functions hides their unused locals, marking fewer reports used ones' % detail,
              sample='locals(): marks n for n in names_at(read) if n.scope is the scope of the call')
    res.assumptions.extend([
        '"parameter of a method" = parameter of a def or lambda whose enclosing scope is a class body',
        'global-declared bindings are not locals and are never candidates',
        'whether `used` is set for the right bindings is C02; the "never read anywhere in the file" premise is not decided',
    ])
