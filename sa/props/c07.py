"""C07 -- module resolution agrees with Python's import system.
Statically decidable necessary conditions only: root precedence, first hit wins,
sibling tables agree, failure is ImportError.
"""
import ast

from ..core import AnalysisError, unparse, qualname
from ..facts import get_facts
from ..callgraph import get_callgraph
from ..absint import Interp, Obj, InterpRaise, Uninterpretable, Unknown, explore, FuncVal
from ..api_model import _source_suffixes

EXPLANATION = (
    'Static analysis of supp/project.py. R1 root precedence: the search path used by get_module and by '
    'list_packages is the same expression and lists the project sources before sys.path; R2 the search of importlib: '
    'Project.get_module is abstractly interpreted (sa/absint.py) on every small concrete file system (two source roots and one '
    'sys.path entry, each holding nothing, a module pkg.py, or a package pkg that is empty or has a source, compiled or package '
    'submodule mod) for the names pkg and pkg.mod; the file analysed must be the one importlib\'s algorithm finds - parent '
    'package first, the submodule only in that package\'s directory, a compiled module imported instead of parsed - and a name '
    'importlib does not find must end in ImportError; R3 get_module and list_packages use the same suffix table and package marker; R4 every '
    'explicit raise reachable from get_nmodule/get_module/norm_package raises ImportError (callers catch exactly '
    'that); R5 Project.norm_package, abstractly interpreted on a fixed three-level package tree, returns what '
    'importlib.util.resolve_name returns for every file and level 1..4, alone and after every other call on the same '
    'project (the directory cache). Agreement with importlib on arbitrary concrete trees is NOT decided.')
TECHNIQUE = 'abstract interpretation of get_module on enumerated concrete file systems against the algorithm of importlib + derivation/sibling rules + raise-class rule'

PROJECT = 'supp/project.py'


def run(repo, res):
    facts = get_facts(repo)
    proj = facts.classes.get('Project')
    if proj is None:
        raise AnalysisError('Project vanished')
    # ---- R1 ------------------------------------------------------------------------------------
    gp = repo.method(PROJECT, 'Project', 'get_path')
    ret = gp.body[-1]
    ok = False
    detail = unparse(ret.value) if isinstance(ret, ast.Return) else norm_txt(ret)
    if isinstance(ret, ast.Return):
        v = ret.value
        parts = []

        def flat(e):
            if isinstance(e, ast.BinOp) and isinstance(e.op, ast.Add):
                flat(e.left)
                flat(e.right)
            elif isinstance(e, (ast.List, ast.Tuple)):
                for x in e.elts:
                    flat(x.value if isinstance(x, ast.Starred) else x)
            elif isinstance(e, ast.Call) and unparse(e.func) in ('list', 'tuple') and e.args:
                flat(e.args[0])
            else:
                parts.append(unparse(e))
        flat(v)
        ok = ('self.sources' in parts and 'sys.path' in parts and parts.index('self.sources') < parts.index('sys.path')
              and parts[0] == 'self.sources')
    res.check('C07-R1', 'search path order', ok, PROJECT, gp.lineno,
              'the module search path must list the project sources before sys.path; get_path returns `%s`' % detail,
              sample='get_path: %s' % detail)
    # list_packages, interpreted on a modelled file system: it must walk the same roots in the same table of suffixes
    # (get_module's walk is decided by R2 below)
    lp = repo.method(PROJECT, 'Project', 'list_packages')
    from .. import api_model as _am
    _am.apply(res, _am.list_packages_model(repo), {'lp': 'C07-R1'}, PROJECT, lp.lineno)

    # ---- R2 / R4 get_module interpreted on every small concrete file system, compared with importlib's algorithm ----------
    # (until round 7 this rule explored a symbolic file system and demanded that the probes go root by root - which is supp's own
    #  strategy, not importlib's: importlib binds the parent package first and looks for a submodule only in that package's directory)
    import itertools
    it = Interp(repo, facts)
    env = it.module_env(PROJECT)
    thorough = getattr(repo, 'tier', 'quick') == 'thorough'
    env['SUFFIXES'] = ['.py', '.so']
    if isinstance(env.get('SOURCE_SUFFIXES'), Unknown) or 'SOURCE_SUFFIXES' in env and not isinstance(env['SOURCE_SUFFIXES'], (list, tuple)):
        env['SOURCE_SUFFIXES'] = ['.py']      # (taken from importlib.machinery: the source suffix of this interpreter)
    roots_src = ['<S1>', '<S2>', '<S3>'] if thorough else ['<S1>', '<S2>']
    roots_sys = ['<P1>']
    roots = roots_src + roots_sys
    it.sys_path = list(roots_sys)
    # what one root may hold: nothing; a module pkg.py (alone or next to a top-level module mod.py); a package pkg, empty or with a source or a compiled submodule mod
    # (outside the quantifier: namespace packages - a directory pkg without __init__.py -, pkg.py next to pkg/, mod.py next to mod.so)
    STATES = [(), ('pkg.py',), ('pkg.py', 'mod.py'), ('pkg/__init__.py',), ('pkg/__init__.py', 'pkg/mod.py'), ('pkg/__init__.py', 'pkg/mod.so'),
              ('pkg/__init__.py', 'pkg/mod/__init__.py'), 'a regular file']      # (a zip or egg on the path: nothing can be found below it)

    def importlib_finds(name, fs):
        search = list(roots)
        parts = name.split('.')
        for i, part in enumerate(parts):
            found = None
            for d in search:
                if '%s/%s/__init__.py' % (d, part) in fs:
                    found = ('package', '%s/%s' % (d, part), '%s/%s/__init__.py' % (d, part))
                    break
                hit = next(('%s/%s%s' % (d, part, sx) for sx in ('.so', '.py') if '%s/%s%s' % (d, part, sx) in fs), None)
                if hit:
                    found = ('module', None, hit)
                    break
            if found is None:
                return None
            if i == len(parts) - 1:
                return found[2]
            if found[0] != 'package':
                return None               # a module has no submodules
            search = [found[1]]
        return None
    paths = 0
    bad2 = []
    try:
        for combo in itertools.product(STATES, repeat=len(roots)):
            fs = {'%s/%s' % (r, f) for r, st in zip(roots, combo) if st != 'a regular file' for f in st}
            it.fs_plain_files = {r for r, st in zip(roots, combo) if st == 'a regular file'}
            # each name asked of a new project, and after the other name was asked of the same project (what one lookup leaves
            # behind - caches, the table of loaded modules - must not change the answer to the next)
            for first, name in ((None, 'pkg.mod'), (None, 'pkg'), ('pkg', 'pkg.mod'), ('pkg.mod', 'pkg')):
                paths += 1
                it.reset_path([])
                it.steps = 0
                it.fs = set(fs)
                it.mtimes = {f: 1000.0 for f in fs}
                it.sys_modules = {}
                p = it.instantiate(proj, [list(roots_src)], {})
                want = importlib_finds(name, fs)
                if first is not None:
                    try:
                        it.call(it.getattr(p, 'get_module'), [first], {})
                    except InterpRaise:
                        pass
                    if any(k == first or k.startswith(first + '.') for k in it.sys_modules):
                        continue          # the first lookup imported a compiled module: sys.modules answers from then on
                try:
                    r = it.call(it.getattr(p, 'get_module'), [name], {})
                    if isinstance(r, Obj) and r.attrs.get('filename') is not None:
                        got = r.attrs.get('filename')
                    else:
                        wrapped = r.attrs.get('module') if isinstance(r, Obj) else None
                        got = 'imported %s' % getattr(wrapped, 'name', wrapped)
                except InterpRaise as e:
                    got = e.exc_name
                if want is None:
                    ok = got in ('ImportError', 'ModuleNotFoundError')
                elif want.endswith('.so'):
                    ok = got == 'imported %s' % name        # a compiled module is imported, not parsed: the module itself, not its top-level package
                else:
                    ok = got == want
                if not ok:
                    bad2.append((sorted(fs) + ['%s is a regular file' % r for r in sorted(it.fs_plain_files)], name if first is None else '%s (after get_module(%r) on the same project)' % (name, first),
                                 got, want or 'ImportError'))
    except Uninterpretable as e:
        raise AnalysisError('get_module is outside the interpretable subset: %s' % e)
    finally:
        it.fs = None
        it.fs_plain_files = None
        it.mtimes = None
    res.obligations += paths - 1
    res.discharged += paths - 1 - (1 if bad2 else 0)
    bad2.sort(key=lambda b: len(b[0]))
    b = bad2[:1]
    res.check('C07-R2', 'get_module finds what importlib finds', not bad2, PROJECT, repo.method(PROJECT, 'Project', 'get_module').lineno,
              'with the files %s under the roots %s, get_module(%r) gives %s; importlib binds each parent package first (the first root '
              'that has it) and looks for the submodule only there: %s (%d of %d file systems x names differ)'
              % (b[0][0] if b else '', roots, b[0][1] if b else '', b[0][2] if b else '', b[0][3] if b else '', len(bad2), paths),
              sample='%d file systems x names: get_module agrees with importlib\'s parent-first search' % paths)
    res.count('file_system_paths', paths, floor=100)

    # ---- R5 relative names (norm_package) on a fixed package tree, incl. call sequences on one project ----
    it2 = Interp(repo, facts)
    it2.module_env(PROJECT)['SUFFIXES'] = ['.py', '.so']
    _source_suffixes(it2)
    # two source roots, the name of the first a string prefix of the name of the second (lib / lib2): which root a file lives under
    # is a question about path components, not about string prefixes
    it2.fs = {'<R>/top/__init__.py', '<R>/top/sub/__init__.py', '<R>/top/sub/deep/__init__.py',
              '<R>2/top/__init__.py', '<R>2/top/sub/__init__.py'}
    it2.reset_path([])
    files = {'<R>/top/sub/deep/m.py': ['top', 'sub', 'deep'], '<R>/top/sub/m.py': ['top', 'sub'], '<R>/top/m.py': ['top'],
             '<R>2/top/sub/m.py': ['top', 'sub'], '<R>2/top/m.py': ['top']}

    def reference(fname, spec):
        # importlib.util.resolve_name(spec, package) with package = the file's package
        pkg = files[fname]
        level = len(spec) - len(spec.lstrip('.'))
        rest = spec.lstrip('.')
        if level > len(pkg):
            return 'ImportError'
        base = pkg[:len(pkg) - (level - 1)]
        return '.'.join(base + ([rest] if rest else []))

    specs = ['.x', '..x', '...x', '....x', '.', '..']
    calls = [(f, sp) for f in sorted(files) for sp in specs]
    nrel = 0
    bad = []
    try:
        for first in [None] + calls:
            for second in calls:
                it2.steps = 0
                p = it2.instantiate(proj, [['<R>', '<R>2']], {})
                seq = ([first] if first else []) + [second]
                got = None
                for f, sp in seq:
                    try:
                        got = it2.call(it2.getattr(p, 'norm_package'), [sp, f], {})
                    except InterpRaise as e:
                        got = e.exc_name
                nrel += 1
                want = reference(*second)
                if got != want and not (want == 'ImportError' and got in ('ImportError', 'ModuleNotFoundError')):
                    bad.append((first, second, got, want))
    except Uninterpretable as e:
        raise AnalysisError('norm_package is outside the interpretable subset: %s' % e)
    res.obligations += nrel - 1
    res.discharged += nrel - 1 - (1 if bad else 0)
    b = bad[:1]
    res.check('C07-R5', 'relative names resolve like importlib.util.resolve_name', not bad, PROJECT,
              repo.method(PROJECT, 'Project', 'norm_package').lineno,
              'on the package tree top/sub/deep, after resolving %s the call norm_package(%r) from %s returns %r; '
              'importlib.util.resolve_name gives %r (%d of %d call sequences differ)'
              % (b[0][0] if b else '', b[0][1][1] if b else '', b[0][1][0] if b else '', b[0][2] if b else '',
                 b[0][3] if b else '', len(bad), nrel),
              sample='%d call sequences (every file x level 1..4, alone and after every other call on the same project) agree '
                     'with resolve_name' % nrel)
    res.count('relative_name_sequences', nrel, floor=300)

    # ---- R6 dotted-name helpers (util.split_pkg / join_pkg), interpreted over every level 0..4 ------------------
    it3 = Interp(repo, facts)
    it3.reset_path([])
    nsp = 0
    badsp = []
    try:
        for level in range(0, 5):
            for rest in ('', 'a', 'a.b', 'a.b.c'):
                pkg = '.' * level + rest
                if not pkg:
                    continue
                it3.steps = 0
                got = it3.call(it3.lookup_global('supp/util.py', 'split_pkg'), [pkg], {})
                if rest == '':
                    want = (pkg, '')
                elif '.' in rest:
                    want = ('.' * level + rest.rsplit('.', 1)[0], rest.rsplit('.', 1)[1])
                else:
                    want = ('.' * level, rest) if level else ('', rest)
                nsp += 1
                if tuple(got) != want:
                    badsp.append((pkg, tuple(got), want))
                    continue
                if want[1] and want[0]:
                    back = it3.call(it3.lookup_global('supp/util.py', 'join_pkg'), [want[0], want[1]], {})
                    nsp += 1
                    if back != pkg:
                        badsp.append(('join_pkg%r' % (want,), back, pkg))
    except Uninterpretable as e:
        raise AnalysisError('split_pkg/join_pkg outside the interpretable subset: %s' % e)
    res.obligations += max(nsp - 1, 0)
    res.discharged += max(nsp - 1, 0) - (1 if badsp else 0)
    res.check('C07-R6', 'split_pkg / join_pkg keep the relative level', not badsp, 'supp/util.py', 0,
              'split_pkg(%r) returns %r, expected %r: the number of leading dots (the relative level) or the last component is '
              'lost, so `from ...pkg.mo|` lists the children of the wrong package' % (badsp[0] if badsp else ('', '', '')),
              sample='%d split/join results over levels 0..4 keep the level and the last component' % nsp)
    res.count('dotted_name_cases', nsp, floor=25)

    # the package-name cache belongs to Project: what norm_package stores is what it computed from the directory structure
    from ..core import private_state_accesses
    priv, outside = private_state_accesses(repo, facts, 'Project')
    res.count('project_private_tables', len(priv), floor=2)
    for attr, rel, line, qual in outside:
        if 'norm' in attr:
            res.check('C07-R5', '%s touched in %s' % (attr, qual), False, rel, line,
                      'the package-name cache of Project is read or written outside Project (in %s): norm_package trusts every entry '
                      'of it, an entry it did not compute itself redirects every relative import from that directory' % qual)
    res.ob('C07-R5', 'package-name cache owned by Project', not any('norm' in a for a, _r, _l, _q in outside),
           sample='%s accessed only inside Project' % ', '.join(p for p in priv if 'norm' in p))
    # the relative level handed to norm_package by completion on a half-typed `from ...` line (assist model)
    from .. import api_model
    api_model.apply(res, [r for r in api_model.assist_model(repo) if r[1].startswith('package whose children') or 'proposes the packages of' in r[1]], {'pkg': 'C07-R6'},
                    'supp/assistant.py', 0)

    # ---- R3 sibling agreement ------------------------------------------------------------------------
    def defining_tree(name):
        """The module of supp that assigns the module-level `name` project.py uses: project.py itself, or the module it imports
        the name from."""
        t = repo.tree(PROJECT)
        if any(isinstance(n, ast.Assign) and unparse(n.targets[0]) == name for n in ast.walk(t)):
            return t
        for st in t.body:
            if isinstance(st, ast.ImportFrom) and st.level >= 1 and any((a.asname or a.name) == name for a in st.names):
                rel = 'supp/%s.py' % (st.module or '').split('.')[-1]
                if rel in repo.trees:
                    return repo.tree(rel)
        return t
    tree = defining_tree('SUFFIXES')
    suf = [n for n in ast.walk(tree) if isinstance(n, ast.Assign) and unparse(n.targets[0]) == 'SUFFIXES']
    ok = any('all_suffixes()' in unparse(n.value) for n in suf)
    res.check('C07-R3', 'SUFFIXES from importlib', ok, PROJECT, suf[0].lineno if suf else 0,
              'SUFFIXES must come from importlib.machinery.all_suffixes() (the suffixes importlib itself uses)')
    tree = defining_tree('SOURCE_SUFFIXES')
    ss = [n for n in ast.walk(tree) if isinstance(n, ast.Assign) and unparse(n.targets[0]) == 'SOURCE_SUFFIXES']
    ok = bool(ss) and isinstance(ss[0].value, (ast.Tuple, ast.List)) and \
        all(isinstance(e, ast.Constant) and e.value in ('.py',) for e in ss[0].value.elts)
    res.check('C07-R3', 'SOURCE_SUFFIXES subset', ok, PROJECT, ss[0].lineno if ss else 0,
              'SOURCE_SUFFIXES must be a subset of the importlib suffixes (.py)', nontrivial=False)

    # ---- R4 failure is ImportError --------------------------------------------------------------------
    cg = get_callgraph(repo)
    roots = ['supp/project.py:Project.get_nmodule', 'supp/project.py:Project.get_module',
             'supp/project.py:Project.norm_package']
    reach = set(roots)
    for r in roots:
        if r not in cg.edges:
            raise AnalysisError('%s vanished' % r)
    # only functions of project.py / module.py constructors are part of the resolution itself
    for r in roots:
        reach |= {k for k in cg.reach(r, True) if k.startswith('supp/project.py')}
    nr = 0
    for k in sorted(reach):
        fi = facts.funcs[k]
        for nd in ast.walk(fi.node):
            if isinstance(nd, ast.Raise) and nd.exc is not None:
                nr += 1
                cls = unparse(nd.exc.func if isinstance(nd.exc, ast.Call) else nd.exc).split('.')[-1]
                res.check('C07-R4', 'raise in %s' % fi.qual, cls in ('ImportError', 'ModuleNotFoundError'), fi.rel,
                          nd.lineno, '%s raises %s when a module cannot be resolved; the contract (and every caller in '
                          'scope.py/name.py, which catch ImportError) requires ImportError' % (fi.qual, cls),
                          sample='%s raises %s' % (fi.qual, cls))
    res.count('resolution_raises', nr, floor=2)
    res.assumptions.extend(['importlib.machinery.all_suffixes() contains ".py" (CPython)',
                            'symbolic file system: two source roots, one sys.path entry, suffixes [".py", ".so"]',
                            'agreement with importlib on concrete trees is not decided'])


def norm_txt(n):
    return ' '.join(unparse(n).split())
