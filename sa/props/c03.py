"""C03 -- no phantom definitions; "possibly undefined" exact; never-bound names
flagged.  Decides the soundness direction of the join construction, the
undefined marker, and that a binding is not visible inside its own value.
"""
import ast

from ..core import AnalysisError, unparse
from .. import rules_e1 as R
from .. import resolve_model as M
from ..e1 import loc_kind

EXPLANATION = (
    'Static analysis of the join construction, soundness direction. R1 (E1+E2 depth 1): for every '
    "compound construct, every block pair whose regions are related in supp's region template must be "
    'related in the Python reference CFG (no extra predecessor), and a block is on every route to '
    'another in supp exactly when it is in the reference (so "possibly undefined" is exact); bindings '
    'must not be visible at sibling expressions Python evaluates before them; R2 the resolution '
    'functions, abstractly interpreted on symbolic region graphs, mark a name missing in one '
    'predecessor as possibly undefined, collapse identical alternatives, leave never-bound names absent '
    '(lint turns that into E02) and hide bindings located after the query position; R3 the visibility '
    'anchor of every assignment/walrus/import binding is the end of its value expression and of every '
    'for/with/except target the start of the body. The precision of get_expr_end itself (last visited '
    'node vs textually last node) and escapes (return/raise ending a region) are NOT decided here.'
    ' Later additions: the lookups are interpreted on the rebuilt region graphs (nothing the graph hides may be found, certainty must agree); conditions are refined on demand (and / or chains with both operators: the branch taken when a chain holds starts after its last operand). R1 also compares joint dominance: two blocks that together lie on every route to a reader although neither does alone (a name bound in each of them is certainly defined there).')
TECHNIQUE = ('region-template extraction by abstract interpretation + reaching-definition/dominance comparison '
             'with reference CFG templates + abstract interpretation of the resolution functions')

LINTER = 'supp/linter.py'


def run(repo, res):
    # a binding must not be visible inside its own value: get_expr_end (the visibility anchor of assignments, walrus,
    # imports, with-targets) must be anchored at the *last* node of the value, i.e. after every read inside it
    from ..exprend import expr_end_semantics
    sem = expr_end_semantics(repo)
    from ..exprend import expr_end_layouts
    for text, ok, detail in expr_end_layouts(repo):
        if ok is None:
            raise AnalysisError('get_expr_end is outside the interpretable subset on %r: %s' % (text, detail))
        res.check('C03-R3', 'get_expr_end on the layout %r' % text, ok, 'supp/util.py', 0, 'the visibility anchor of a binding must lie after every read inside its value expression in every layout: %s' % detail,
                  sample='get_expr_end(%r) = start of the textually last node + 1 column' % text)
    layout_wrong = any(ok is False for _t, ok, _d in expr_end_layouts(repo))
    for cls, verdict, detail in sem:
        if verdict == 'unknown':
            if layout_wrong:
                # the symbolic model gives up on this get_expr_end, but a concrete layout above already shows a wrong result:
                # that is a verdict (reported above with the layout), not an analysis failure
                return
            raise AnalysisError('get_expr_end is outside the interpretable subset: %s' % detail)
        res.check('C03-R3', 'get_expr_end on %s' % cls, verdict == 'ok', 'supp/util.py', 0,
                  'the visibility anchor of a binding must lie after every read inside its value expression (%s): otherwise '
                  'the name sees itself in its own right-hand side - a definition that reaches the read on no path' % detail,
                  sample='get_expr_end(%s) is anchored at the last visited node' % cls)
    if any(v != 'ok' for _, v, _ in sem):
        return
    _ns, _np = R.shape_stats(repo)
    res.extra['e1_shapes_interpreted'] = _ns
    res.extra['e1_shape_paths_interpreted'] = _np
    seen = set()
    n = 0
    for r in R.block_records(repo, pairs=True):
        k = (R.method_name(repo, r['cls']), r['a'], r['b'])
        n += 1
        phantom = r['supp_may'] and not r['ref_may']
        if phantom and 'last=IfRaise' in r['variant'] and r['a'].startswith('body[*].body[*]'):
            phantom = False       # the branch that ends in `raise` flows on in supp's graph: the recorded finding C03-R4, not a new one
        if (k, 'may', phantom) not in seen:
            seen.add((k, 'may', phantom))
            res.check('C03-R1', '%s %s -> %s phantom' % k, not phantom, r['line'][0], r['line'][1],
                      'the region %s.%s is visited in inherits from the region of %s.%s, but no Python '
                      'execution reaches %s after %s: definitions made in %s are reported at reads in %s '
                      'although they can never be live there' % (r['cls'], r['b'], r['cls'], r['a'], r['b'],
                                                                r['a'], r['a'], r['b']),
                      sample='%s: no phantom flow %s -> %s' % (r['cls'], r['a'], r['b']))
        if r['ref_may'] and r['supp_may']:
            wrong = r['ref_dom'] != r['supp_dom']
            if wrong and 'last=IfRaise' in r['variant']:
                # a branch that ends in `raise` still feeds the next join in supp's graph (the recorded finding C03-R4 [Raise does
                # not end its region]): which routes pass a binding behind such a branch - in either direction, e.g. the else block
                # of a try without handlers - is that finding, not a new one
                wrong = False
            if (k, 'dom', wrong) not in seen:
                seen.add((k, 'dom', wrong))
                res.check('C03-R1', '%s %s -> %s undefinedness' % k, not wrong, r['line'][0], r['line'][1],
                          'a name bound %s %s.%s: Python %s reach %s.%s without passing the binding, supp '
                          'says it %s -> "possibly undefined" is %s'
                          % ('in each of the two blocks' if r.get('pair') else 'only in', r['cls'], r['a'], 'cannot' if r['ref_dom'] else 'can', r['cls'], r['b'],
                             'cannot' if r['supp_dom'] else 'can',
                             'missing' if r['supp_dom'] else 'spurious'),
                          sample='%s: %s %s every route to %s' % (r['cls'], r['a'],
                                                                   'is on' if r['ref_dom'] else 'is not on', r['b']))
    res.count('block_pairs', n, floor=100)
    from .. import resolve_model as _M
    lrecs, lq = _M.lookup_reach_records(repo)
    seen = set()
    for r in lrecs:
        phantom = r['sem_may'] and not r['struct_may']
        wrong = r['sem_may'] and r['struct_may'] and r['sem_dom'] != r['struct_dom']
        k = (R.method_name(repo, r['cls']), r['a'], r['b'], phantom, wrong)
        if k in seen:
            continue
        seen.add(k)
        res.check('C03-R1', '%s %s -> %s lookup' % k[:3], not (phantom or wrong), r['line'][0], r['line'][1],
                  'on %s shape `%s` supp\'s own lookup (names_at interpreted on the graph rebuilt from its Flow objects, in the state '
                  'the extractor leaves them) at %s %s a name bound only in %s, while the region graph says it %s'
                  % (r['cls'], r['variant'], r['b'],
                     'finds' if phantom else ('reports as certainly defined' if r['sem_dom'] else 'reports as possibly undefined'),
                     r['a'], 'is not visible there' if phantom else ('is on every route' if r['struct_dom'] else 'is not on every route')),
                  sample='%s: the lookup at %s agrees with the region graph about %s' % (r['cls'], r['b'], r['a']))
    res.count('lookup_reach_queries', lq, floor=300)
    # ---- continuity of statement blocks (shared with C01-R5): a dropped exit region loses/keeps definitions ----
    for cls, r in sorted(R.continuity_records(repo).items()):
        for path, line in sorted(r['dropped'].items()):
            stmt_block = path.split('.')[-1].split('[')[0] in ('body', 'orelse', 'finalbody')
            if not stmt_block:
                continue
            res.check('C03-R5', '%s %s exit dropped' % (R.method_name(repo, cls), path), False, line[0], line[1],
                      'the region left current after the statement block %s.%s is discarded: the join keeps the stale region: definitions overwritten inside the block stay listed (phantom) and names bound there look undefined' % (cls, path))
    res.ob('C03-R5', 'statement-block continuity', True, sample='every statement block\'s exit region is consumed by a join, the next block or the scope')
    for (cls, blk, reader), r in sorted(R.shadow_records(repo).items()):
        bad = r['bad']
        res.check('C03-R1', '%s %s lookup order from %s' % (R.method_name(repo, cls), blk, reader), not bad, r['line'][0], r['line'][1],
                  'a read in %s.%s reaches the region of %s (walk %s) without first consulting the region(s) %s of the later '
                  'statements of the same block: a binding overwritten on every path stays listed (phantom definition)'
                  % (cls, reader, bad[0][1] if bad else '', bad[0][3] if bad else '', bad[0][2] if bad else ''),
                  sample='%s: from %s the later statements of %s shadow the earlier ones' % (cls, reader, blk))
    hyg = R.binding_hygiene_records(repo)
    seen_fp = set()
    for cls, variant, owners, line in hyg['foreign_params']:
        k = '%s takes the parameters of a nested function for its own' % R.method_name(repo, cls)
        if k in seen_fp:
            continue
        seen_fp.add(k)
        res.check('C03-R1', k, False, line[0], line[1],
                  'on %s shape `%s` one function scope receives parameters written in %s: the parameters of a lambda used as a default '
                  'value become names of the enclosing function - reads of such a name there resolve to a definition that reaches them '
                  'on no path' % (cls, variant, owners))
    res.ob('C03-R1', 'a function scope holds its own parameters only', not hyg['foreign_params'],
           sample='%d shape paths (defaults that are lambdas with parameters included)' % hyg['n'])
    brecs = R.binder_records(repo)
    for (cls, kind, path), r in sorted(brecs.items()):
        if r['n'] == 0 or r['missing']:
            continue
        key = '%s %s %s' % (R.method_name(repo, cls), kind, path)
        vb = sorted({p for _, p in r['visible_before']})
        res.check('C03-R1', key + ' not visible before', not vb, r['line'][0], r['line'][1],
                  'binding %s is visible at %s, which Python evaluates before the binding exists'
                  % (key, vb), sample='%s invisible at every earlier sibling' % key)
        # R3 anchors
        kinds = set()
        for s, bp, binder, b in r['binds']:
            lk = loc_kind(b.get('location'))
            kinds.add((lk[0], R.gen(lk[1]) if isinstance(lk[1], str) else str(lk[1])))
        want = {'assign': 'expr_end', 'walrus': 'expr_end', 'import': 'expr_end', 'from-import': 'expr_end'}.get(kind)
        if want:
            ok = all(k0 in (want, 'node_end') for k0, _ in kinds)      # (the end of the value's last token serves as well)
            res.check('C03-R3', key + ' anchor', ok, r['line'][0], r['line'][1],
                      'the binding %s must become visible at the end of its value expression / statement '
                      '(a name is not visible inside its own right-hand side); anchors found: %s'
                      % (key, sorted(kinds)), sample='%s anchored at %s' % (key, sorted(kinds)))
        elif kind in ('for', 'except'):
            # np(body[0]) or the first token of the body (what C01-R4 demands: a decorated definition starts at its `@`)
            ok = all((k0 == 'np' and p.endswith('body[*]')) or (k0 == 'first_body' and p.endswith('body')) for k0, p in kinds)
            res.check('C03-R3', key + ' anchor', ok, r['line'][0], r['line'][1],
                      'the target %s must become visible at the start of the body; anchors found: %s'
                      % (key, sorted(kinds)), sample='%s anchored at %s' % (key, sorted(kinds)))
    # ---- R4 escape statements end their region ----------------------------------------------
    # Design-agnostic: the region effects of `return x` / `raise x` must differ observably from those of the
    # plain expression statement `x` (a fresh/dead region, a flag on the region or scope ...); otherwise the
    # branch that escapes still feeds the next join and its definitions are phantom alternatives.
    summ = R.summaries(repo)

    def region_signature(cls):
        sigs = set()
        for s in summ.get(cls, []):
            for ps in R.ok_paths(s):
                flags = tuple(sorted((e[0], str(e[1])) for e in ps.effects
                                     if e[0] not in ('curscope_attr', 'curscope_attr_guarded')))
                stamps = tuple(sorted((a, r) for _, a, r, _ in ps.stamps if a != 'flow'))
                sigs.add((ps.final_flow.startswith('exit(') or ps.final_flow == 'CUR',
                          tuple(sorted(k for k in ps.regions if not k.startswith('exit(') and k != 'CUR')), flags, stamps))
        return sigs
    plain = region_signature('Expr')
    for cls in ('Return', 'Raise'):
        sig = region_signature(cls)
        line = R.method_line(repo, cls)
        res.check('C03-R4', '%s does not end its region' % cls, sig != plain, line[0], line[1],
                  'a %s statement leaves the extractor in the same region, with the same effects, as a plain expression '
                  'statement: the escaping branch still feeds the next join, so its definitions are listed at reads '
                  'they can never reach (and "possibly undefined" is computed as if the branch continued)' % cls.lower(),
                  sample='%s: region effects differ from a plain expression statement: %s' % (cls, sig != plain))

    # ---- R2 resolution functions -----------------------------------------------------------
    M.check_undefined(repo, res, 'C03-R2')
    M.check_same_line(repo, res, 'C03-R2')
    lint = repo.module_func(LINTER, 'lint')
    e02 = []
    for nd in ast.walk(lint):
        if isinstance(nd, ast.Tuple) and nd.elts and isinstance(nd.elts[0], ast.Constant) and nd.elts[0].value == 'E02':
            h = nd
            while h is not None and not isinstance(h, ast.ExceptHandler):
                h = getattr(h, '_parent', None)
            e02.append(h)
    ok = len(e02) == 1 and e02[0] is not None and unparse(e02[0].type) == 'KeyError'
    res.check('C03-R2', 'lint E02 on absent name', ok, LINTER, lint.lineno,
              'lint must report E02 exactly when the name is absent from the table (KeyError branch)')
    res.assumptions.extend([
        'reference CFG templates (sa/pyref.py T3) for the C03 domain',
        'get_expr_end returns a position after every read inside the value (its precision is a layout question, C13)',
        'escapes: R4 only decides that return/raise are distinguished from plain statements at all, not that every join handles dead regions',
    ])
