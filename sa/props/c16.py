"""C16 -- exactly one server; close ends it (engine E6b).
Static lock-set (Eraser-style), check-then-act, single-launch dominator rule,
repository-wide call arity, close typestate, server loop exits.
"""
import ast

from ..core import AnalysisError, unparse, norm_stmt, qualname
from ..facts import (get_facts, always_exits, may_exit, handler_catches, FuncInfo, ClassInfo,
                     enclosing_try_bodies, enclosing_withs, calls_in, stmt_of)

REMOTE = 'supp/remote.py'
SERVER = 'supp/server.py'

EXPLANATION = (
    'Static concurrency/protocol rules over supp/remote.py and supp/server.py: R1 lock-set: for '
    'every field of Environment the set of locks held at each access is computed per thread '
    'context (caller threads = public methods, starter thread = Thread(target=...)) '
    'interprocedurally through self-calls; fields written in one context and accessed in another '
    'with disjoint lock-sets are race candidates, triaged against a reasoned table; R2 '
    'check-then-act: a racy field must not be read twice on one path (test, then dereference); '
    'R3 single launch: Popen only in _run, every route to _run holds prepare_lock and is '
    'dominated by the no-connection / no-starter tests, a running starter is joined first; R4 '
    'call arity for every call in supp/ whose callee resolves to a repository function; R5 close '
    'typestate: send close request, close, forget the connection, in that order, and the '
    'request name matches what the server tests; R6 the server loop breaks on close, EOF and '
    'any other receive/decode error and the process ends after run(). Real-process behaviour '
    '(deadlock freedom, OS sockets, time-outs) is NOT decided.'
    ' Later additions: R1 the unprotected shared fields are a reasoned table - a new field written by one thread context and accessed by another without a common lock is reported until it is examined; guards are read through predicate helper methods, the launch routine is the Popen method plus the private methods that call it unconditionally. R7 the background starter is not a daemon thread (daemon= of its Thread call, .daemon / setDaemon on its handle): interpreter exit waits until the launch is settled, otherwise a server launched but not yet connected is left in accept() for ever.')
TECHNIQUE = 'static lock-set + check-then-act + who-may-call rules + resolved call-arity check + abstract interpretation of the launch/close protocol on a modelled starter thread and connection'

LOCK = 'self.prepare_lock'


def self_attr_accesses(fn):
    """(attr, 'r'|'w'|'d', node) for every self.X access in fn, incl. hasattr(self,'x')."""
    out = []
    for n in ast.walk(fn):
        if isinstance(n, ast.Attribute) and isinstance(n.value, ast.Name) and n.value.id == 'self':
            kind = {'Store': 'w', 'Del': 'd'}.get(type(n.ctx).__name__, 'r')
            out.append((n.attr, kind, n))
        if isinstance(n, ast.Call) and unparse(n.func) in ('hasattr', 'getattr') and len(n.args) >= 2 \
                and unparse(n.args[0]) == 'self' and isinstance(n.args[1], ast.Constant):
            out.append((n.args[1].value, 'r', n))
    return out


METHODS = {}      # the methods of Environment (filled by run)


def lock_managers():
    """Methods of Environment decorated with @contextmanager every `yield` of which lies inside `with <the lock>`: entering one
    holds the lock for the body of the `with` statement."""
    out = {}
    for name, m in METHODS.items():
        if not any('contextmanager' in unparse(d) for d in m.decorator_list):
            continue
        ys = [n for n in ast.walk(m) if isinstance(n, ast.Yield)]
        if ys and all(any(any(unparse(it.context_expr) == LOCK for it in w.items) for w in enclosing_withs(y, m)) for y in ys):
            out[name] = (m, ys)
    return out


def entered_managers(node, fn):
    mgrs = lock_managers()
    out = []
    for w in enclosing_withs(node, fn):
        for it in w.items:
            e = unparse(it.context_expr)
            if e.startswith('self.') and e.endswith('()') and e[5:-2] in mgrs:
                out.append(mgrs[e[5:-2]])
    return out


def holds_lock(node, fn):
    return any(any(unparse(it.context_expr) == LOCK for it in w.items) for w in enclosing_withs(node, fn)) \
        or bool(entered_managers(node, fn))


def run(repo, res):
    facts = get_facts(repo)
    env = facts.classes.get('Environment')
    if env is None:
        raise AnalysisError('Environment vanished')
    methods = {k: v.node for k, v in env.methods.items()}
    METHODS.clear()
    METHODS.update(methods)

    # ---- thread contexts -------------------------------------------------
    starter_targets = set()
    for m in methods.values():
        for c in calls_in(m):
            if unparse(c.func).split('.')[-1] == 'Thread':
                for k in c.keywords:
                    if k.arg == 'target' and unparse(k.value).startswith('self.'):
                        starter_targets.add(unparse(k.value)[5:])
    if not starter_targets:
        res.note('no Thread(target=self.X) found: the background starter was removed; '
                 'lock-set rules are vacuous for the starter context')
    # ---- the starter settles the launch before the process may end: a daemon thread is dropped at interpreter exit, in the
    # middle of the handshake - the child it launched then waits for a client that never connects and nobody terminates it
    import ast as _ast
    nthreads = 0
    for mname, m in sorted(methods.items()):
        made = {}
        for c in calls_in(m):
            if unparse(c.func).split('.')[-1] != 'Thread':
                continue
            tgt = [unparse(k.value) for k in c.keywords if k.arg == 'target']
            if not (tgt and tgt[0].startswith('self.') and tgt[0][5:] in starter_targets):
                continue
            nthreads += 1
            dk = [k.value for k in c.keywords if k.arg == 'daemon']
            daemon = bool(dk) and not (isinstance(dk[0], _ast.Constant) and dk[0].value in (False, None))
            res.check('C16-R7', 'Environment.%s starter thread daemon' % mname, not daemon, 'supp/remote.py', c.lineno,
                      'the background starter created in %s() is a daemon thread (daemon=%s): when the client program ends while the '
                      'launch is in flight the interpreter drops the starter between launching the server and connecting to it - the '
                      'server process is left in accept() for ever, neither connected (no end-of-file to end it) nor terminated'
                      % (mname, unparse(dk[0]) if dk else ''),
                      sample='the starter thread of %s() is not a daemon: interpreter exit waits until the launch is settled' % mname)
        for n in _ast.walk(m):
            tgt = None
            if isinstance(n, _ast.Assign) and len(n.targets) == 1 and isinstance(n.targets[0], _ast.Attribute) \
                    and n.targets[0].attr == 'daemon' and not (isinstance(n.value, _ast.Constant) and n.value.value in (False, None)):
                tgt = unparse(n.targets[0].value)
            elif isinstance(n, _ast.Call) and isinstance(n.func, _ast.Attribute) and n.func.attr == 'setDaemon' \
                    and not (n.args and isinstance(n.args[0], _ast.Constant) and n.args[0].value in (False, None)):
                tgt = unparse(n.func.value)
            starters = set()
            for a in _ast.walk(m):
                if isinstance(a, _ast.Assign) and isinstance(a.value, _ast.Call) and unparse(a.value.func).split('.')[-1] == 'Thread' \
                        and any(k.arg == 'target' and unparse(k.value).startswith('self.') and unparse(k.value)[5:] in starter_targets
                                for k in a.value.keywords):
                    starters.update(unparse(t) for t in a.targets)
            if tgt is not None and tgt in starters:
                res.check('C16-R7', 'Environment.%s marks %s a daemon' % (mname, tgt), False, 'supp/remote.py', n.lineno,
                          '%s() makes the background starter %s a daemon thread: a '
                          'daemon starter is dropped at interpreter exit in the middle of the handshake, leaving its server process '
                          'waiting for ever' % (mname, tgt))
    if starter_targets:
        res.count('starter_threads', nthreads, floor=1)
    public = [n for n in methods if not n.startswith('_')]

    # interprocedural: (method, lock_held) reachable from each context root
    def reach(roots):
        seen = set()
        work = [(r, False) for r in roots]
        while work:
            m, held = work.pop()
            if (m, held) in seen or m not in methods:
                continue
            seen.add((m, held))
            for c in calls_in(methods[m]):
                f = unparse(c.func)
                if f.startswith('self.') and f[5:] in methods:
                    work.append((f[5:], held or holds_lock(c, methods[m])))
        return seen

    ctx = {'caller': reach(public), 'starter': reach(sorted(starter_targets))}
    # accesses: field -> list of (context, method, lockset(bool), kind, node)
    acc = {}
    for cname, pairs in ctx.items():
        for m, held in pairs:
            for attr, kind, node in self_attr_accesses(methods[m]):
                if attr in methods or attr == 'prepare_lock':
                    continue
                locked = held or holds_lock(node, methods[m])
                acc.setdefault(attr, []).append((cname, m, locked, kind, node))
    # fields only written in __init__ are immutable configuration
    racy = {}
    for attr, lst in sorted(acc.items()):
        writes = [a for a in lst if a[3] in 'wd']
        if not writes:
            continue
        # unlocked writers first: they are what makes a locked reader unsafe
        for w in sorted(writes, key=lambda w: w[2]):
            for a in lst:
                if a is w:
                    continue
                # two different thread contexts, or two caller threads
                if a[0] == w[0] == 'starter':
                    continue
                if not (w[2] and a[2]):
                    racy.setdefault(attr, []).append((w, a))
    res.count('environment_fields', len(acc), floor=3)

    # reasoned exceptions (triaged by reading; each needs its supporting fact checked below)
    REASONED = {
        'conn': 'double-checked idiom: unlocked existence test in _call/close, re-tested under the lock in run()',
        'proc': 'written by the launcher only, read only by the invocation that wrote it',
        'executable': 'configuration', 'env': 'configuration', 'logfile': 'configuration',
    }
    TRIAGED = {'prepare_thread': 'the handle of the starter: written under the lock by prepare, cleared by the starter itself; every reader '
                                 'reads it once into a local (R2) and the launch routes re-test under the lock (R3)'}
    for attr in sorted(racy):
        pairs = racy[attr]
        w, a = pairs[0]
        key = 'Environment.%s' % attr
        if attr in REASONED:
            ok = True
            if attr == 'conn':
                ok = conn_idiom_holds(methods)
            if attr == 'proc':
                # reads are fine where the same invocation wrote the field before (the launcher giving up on its own child)
                first_write = {}
                for x in acc[attr]:
                    if x[3] == 'w':
                        first_write[x[1]] = min(first_write.get(x[1], x[4].lineno), x[4].lineno)

                def after_own_write(mname, line, depth=0):
                    """the access at `line` of method mname happens after a write by the same invocation: in the method itself, or
                    in every method that calls it (a helper of the launcher), before the call"""
                    if mname in first_write and line > first_write[mname]:
                        return True
                    sites = [(cm, c) for cm, cn in methods.items() for c in calls_in(cn) if unparse(c.func) == 'self.' + mname]
                    return bool(sites) and depth < 4 and all(after_own_write(cm, c.lineno, depth + 1) for cm, c in sites)
                ok = all(x[3] == 'w' or after_own_write(x[1], x[4].lineno) for x in acc[attr])
            res.check('C16-R1', key, ok, REMOTE, w[4].lineno,
                      'field %s is accessed without a common lock (write in %s/%s, access in %s/%s); '
                      'accepted only as: %s -- that supporting fact does not hold'
                      % (attr, w[0], w[1], a[0], a[1], REASONED[attr]),
                      sample='%s: %d unlocked write/access pairs, reasoned: %s' % (attr, len(pairs), REASONED[attr]))
            continue
        # a shared field nobody has looked at: the accepted unprotected fields are a reasoned table (each with the rule that decides its
        # safe use), not whatever the lock-set analysis happens to find
        if attr not in TRIAGED:
            res.check('C16-R1', key, False, REMOTE, w[4].lineno,
                      'field %s is written in %s/%s (lock held: %s) and accessed in %s/%s (lock held: %s) without a common lock, and is not '
                      'one of the fields whose unprotected use was examined (%s): a flag or handle shared between the caller and the starter '
                      'thread needs the lock or an argument why the race is benign' % (
                          attr, w[0], w[1], w[2], a[0], a[1], a[2], ', '.join(sorted(set(TRIAGED) | set(REASONED)))))
            continue
        # R2 check-then-act decides whether an unprotected field is used safely
        bad = check_then_act(methods, attr, acc[attr])
        res.ob('C16-R1', key, True,
               sample='%s: written in %s.%s (lock %s), accessed in %s.%s (lock %s) -> race candidate, '
                      'decided by R2' % (attr, w[0], w[1], w[2], a[0], a[1], a[2]))
        for m, first, second in bad:
            res.check('C16-R2', '%s in %s' % (key, m), False, REMOTE, second.lineno,
                      'check-then-act on %s in %s: the field is read at line %d and read again at '
                      'line %d, but %s writes it without holding prepare_lock (%s.%s); the second '
                      'read may see None (AttributeError). Read it once into a local.'
                      % (attr, m, first.lineno, second.lineno, w[0], w[0], w[1]))
        if not bad:
            res.ob('C16-R2', key, True, sample='%s: every method reads the racy field at most once per path' % attr)

    # ---- R3 single launch -------------------------------------------------
    popen_sites = []
    for rel in ('supp/remote.py',):
        for n in ast.walk(repo.tree(rel)):
            if isinstance(n, ast.Call) and unparse(n.func).split('.')[-1] == 'Popen':
                fn = facts.func_of(n)
                popen_sites.append((fn.qual if fn else '<module>', n))
    res.count('popen_sites', len(popen_sites), floor=1)
    entry_points = set(public) | set(starter_targets)
    launchers = launcher_family(methods, entry_points)
    for q, n in popen_sites:
        res.check('C16-R3', 'Popen in a method of Environment', q.startswith('Environment.'), REMOTE, n.lineno,
                  'the server process may be launched only by a method of Environment, every call of which is a checked launch '
                  'route (found in %s)' % q, nontrivial=False)
    # every call of a launcher from a caller-context method
    nroutes = 0
    for mname, m in methods.items():
        for c in calls_in(m):
            f = unparse(c.func)
            if not (f.startswith('self.') and f[5:] in launchers):
                continue
            if mname in launchers and mname not in entry_points:
                continue          # a helper of the launch itself (the route into it is what is checked)
            nroutes += 1
            key = 'route %s -> %s' % (mname, f[5:])
            if mname in starter_targets:
                # the starter: its creation site is what must be guarded
                continue
            locked = holds_lock(c, m)
            guard = dominated_by_conn_absent(c, m)
            joined = starter_joined_before(c, m)
            res.check('C16-R3', key, locked and guard and joined, REMOTE, c.lineno,
                      '%s launches the server: must hold prepare_lock (%s), be guarded by "no '
                      'connection yet" (%s) and join a running starter first (%s)'
                      % (mname, locked, guard, joined),
                      sample='%s: lock=%s, conn-absent guard=%s, starter joined first=%s'
                             % (key, locked, guard, joined))
    for mname, m in methods.items():
        for c in calls_in(m):
            if unparse(c.func).split('.')[-1] == 'Thread':
                nroutes += 1
                key = 'starter creation in %s' % mname
                locked = holds_lock(c, m)
                # both tests must be made under the lock (an unlocked test can be overtaken before the lock is taken)
                g1 = early_return_guard(c, m, lambda t: 'prepare_thread' in t, need_lock=True)
                g2 = early_return_guard(c, m, lambda t: "'conn'" in t or '"conn"' in t, need_lock=True)
                # the handle must be stored under the lock before the thread is started
                st = stmt_of(c)
                stored = isinstance(st, ast.Assign) and unparse(st.targets[0]) == 'self.prepare_thread'
                if not stored and isinstance(st, ast.Assign) and isinstance(st.targets[0], ast.Name):
                    # kept in a local first: the local must be stored in the handle, under the lock, before it is started
                    v = st.targets[0].id
                    starts = [x for x in calls_in(m) if unparse(x.func) == v + '.start']
                    stores = [x for x in ast.walk(m) if isinstance(x, ast.Assign) and unparse(x.targets[0]) == 'self.prepare_thread'
                              and unparse(x.value) == v and holds_lock(x, m)]
                    stored = bool(starts) and bool(stores) and all(any(y.lineno < x.lineno for y in stores) for x in starts)
                res.check('C16-R3', key, locked and g1 and g2 and stored, REMOTE, c.lineno,
                          'a starter thread may be created only under prepare_lock (%s), after '
                          'returning early when a starter is running (%s) or a connection exists '
                          '(%s), and its handle must be recorded (%s)' % (locked, g1, g2, stored),
                          sample='%s: lock=%s guards=(%s,%s) recorded=%s' % (key, locked, g1, g2, stored))
    res.count('launch_routes', nroutes, floor=2)
    # the starter target must reach the launcher and clear its handle on every exit
    for t in sorted(starter_targets):
        m = methods.get(t)
        if m is None:
            raise AnalysisError('starter target %s vanished' % t)
        clears = [n for n in ast.walk(m) if isinstance(n, ast.Assign)
                  and unparse(n.targets[0]) == 'self.prepare_thread']
        in_finally = any(isinstance(p, ast.Try) and any(c is s for s in p.finalbody)
                         for c in clears for p in [getattr(c, '_parent', None)])
        res.check('C16-R3', 'starter %s clears its handle' % t, bool(clears) and in_finally, REMOTE, m.lineno,
                  'the starter must clear prepare_thread in a finally (otherwise a failed launch '
                  'blocks every later prepare())', nontrivial=False)

    # ---- R2 publication order: the starter publishes its results without the lock ---------------------------------------
    # It writes the connection first and clears its own handle last (in a finally).  A caller that decides from both fields
    # must therefore read them in the opposite order - handle first, connection second; read the other way round, a starter
    # finishing between the two reads leaves "no connection" and "no starter" both true, and a second server is launched.
    def writes_in_order(mname, seen=None):
        seen = seen or set()
        if mname in seen or mname not in methods:
            return []
        seen.add(mname)
        events = []
        for n in ast.walk(methods[mname]):
            if isinstance(n, ast.Attribute) and isinstance(n.value, ast.Name) and n.value.id == 'self' and isinstance(n.ctx, ast.Store):
                events.append(((n.lineno, n.col_offset), 'w', n.attr))
            if isinstance(n, ast.Call) and unparse(n.func).startswith('self.') and unparse(n.func)[5:] in methods:
                events.append(((n.lineno, n.col_offset), 'c', unparse(n.func)[5:]))
        out = []
        fin = set()
        for t in ast.walk(methods[mname]):
            if isinstance(t, ast.Try):
                for st in t.finalbody:
                    for x in ast.walk(st):
                        fin.add(id(x))
        body_events = sorted(e for e in events)
        # statements of a finally block run after the try body whatever their position
        late = [e for e in body_events if any(id(n) in fin for n in ast.walk(methods[mname])
                                              if getattr(n, 'lineno', None) == e[0][0] and getattr(n, 'col_offset', None) == e[0][1])]
        early = [e for e in body_events if e not in late]
        for _pos, kind, name in early + late:
            if kind == 'w':
                out.append(name)
            else:
                out.extend(writes_in_order(name, seen))
        return out
    def read_only(mname, depth=0):
        """a helper that only looks at the object's fields (and calls such helpers)"""
        fn = methods[mname]
        if any(kind in 'wd' for _a, kind, _n in self_attr_accesses(fn)):
            return False
        for c in calls_in(fn):
            f = unparse(c.func)
            if f.startswith('self.') and f[5:] in methods and (depth >= 3 or not read_only(f[5:], depth + 1)):
                return False
        return True
    npub = 0
    for t in sorted(starter_targets):
        order = []
        for a in writes_in_order(t):
            if a not in order:
                order.append(a)
        for i, first in enumerate(order):
            for later in order[i + 1:]:
                for mname, m in methods.items():
                    if mname in starter_targets or mname == '__init__':
                        continue
                    reads = {}

                    def collect(fn, at=None, depth=0):
                        # a read made by a helper method counts where the helper is called
                        for attr, kind, node in self_attr_accesses(fn):
                            if kind == 'r' and attr in (first, later):
                                pos = at or (node.lineno, node.col_offset)
                                if attr not in reads or pos < reads[attr]:
                                    reads[attr] = pos
                        for c in calls_in(fn):
                            f = unparse(c.func)
                            if f.startswith('self.') and f[5:] in methods and depth < 3 and read_only(f[5:]):
                                collect(methods[f[5:]], at or (c.lineno, c.col_offset), depth + 1)
                    collect(m)
                    if len(reads) < 2:
                        continue
                    npub += 1
                    res.check('C16-R2', '%s reads %s before %s' % (mname, later, first), reads[later] < reads[first], REMOTE, m.lineno,
                              'the starter (%s) publishes %s before %s, without the lock; %s tests %s first and %s second: a starter that '
                              'finishes between the two tests leaves both "absent", and the caller launches a second server'
                              % (t, first, later, mname, first, later),
                              sample='%s: %s (written last) is read before %s (written first)' % (mname, later, first))
    res.count('publication_order_checks', npub, floor=2)

    # ---- R4 call arity (repository wide) ---------------------------------
    n_calls, n_resolved = check_arity(repo, res, facts)
    res.count('calls_resolved', n_resolved, floor=150)
    res.extra['calls_total'] = n_calls

    # ---- R5 close typestate / R6 server leaves its loop (interpreted on a modelled connection) --------------
    from .. import api_model
    close = methods.get('close')
    if close is None:
        raise AnalysisError('Environment.close vanished')
    srv_run = repo.method(SERVER, 'Server', 'run')
    api_model.apply(res, api_model.client_model(repo), {'close': 'C16-R5'}, REMOTE, close.lineno)
    # launch protocol on a modelled starter thread / launcher: sequential schedules (starter in flight until joined, or
    # finished at once), with and without a failing background launch; the interleavings proper are R1-R3 above
    nl = api_model.apply(res, api_model.client_model(repo), {'launch': 'C16-R3'}, REMOTE, 0)
    res.count('launch_scenarios', nl, floor=6)
    api_model.apply(res, api_model.server_model(repo), {'close': 'C16-R6', 'eof': 'C16-R6'}, SERVER, srv_run.lineno)
    main = None
    for n in repo.tree(SERVER).body:
        if isinstance(n, ast.If) and '__main__' in unparse(n.test):
            main = n
    if main is None:
        raise AnalysisError('server.py: __main__ block vanished')
    last = main.body[-1]
    runs = [s for s in main.body if isinstance(s, ast.Expr) and isinstance(s.value, ast.Call)
            and unparse(s.value.func).endswith('.run')]
    res.check('C16-R6', '__main__ ends after run', bool(runs) and last is runs[-1], SERVER, last.lineno,
              'the server process must end when run() returns (nothing may follow it)')
    # loop condition: constant-true loop relies on the breaks above; a poll with timeout keeps it responsive
    res.assumptions.extend([
        'threading.Lock provides mutual exclusion; Thread.join waits for termination (stdlib)',
        'check-then-act rule treats an own write between two reads as re-establishing the value',
        'real-process behaviour (sockets, launch time-outs, deadlock with the OS) is not decided',
    ])


def conn_idiom_holds(methods):
    """run() re-tests the connection under the lock before launching (the launcher is whichever method calls Popen)."""
    r = methods.get('run')
    if r is None:
        return False
    launchers = launcher_family(methods, {n for n in methods if not n.startswith('_')})
    for c in calls_in(r):
        f = unparse(c.func)
        if f.startswith('self.') and f[5:] in launchers:
            return holds_lock(c, r) and dominated_by_conn_absent(c, r)
    return False


def test_text(test):
    """The text of a condition with the calls of predicate helpers of the class (a method whose body is one `return <expr>`, e.g.
    `def _connected(self): return hasattr(self, 'conn')`) replaced by that expression."""
    import re as _re
    t = unparse(test)
    for _ in range(3):
        changed = False
        for name, m in METHODS.items():
            body = [x for x in m.body if not (isinstance(x, ast.Expr) and isinstance(x.value, ast.Constant))]
            if len(body) == 1 and isinstance(body[0], ast.Return) and body[0].value is not None and len(m.args.args) == 1:
                call_txt = 'self.%s()' % name
                if call_txt in t:
                    t = t.replace(call_txt, '(%s)' % unparse(body[0].value))
                    changed = True
        if not changed:
            break
    t = _re.sub(r'^not \((.*)\)$', r'not \1', t)
    return t


def launcher_family(methods, entry_points=()):
    """The launch routine: the method that calls Popen and the private methods that call a method of the routine unconditionally
    (the call is not under an if / loop / with of their own) - `_run` calling `_launch(addr)` is one routine with it; `run`, which
    calls `_run` only under its lock and its test, is a *route* into the routine."""
    fam = {name for name, m in methods.items() if any(unparse(c.func).split('.')[-1] == 'Popen' for c in calls_in(m))}

    def unconditional(call, fn):
        child, p = call, getattr(call, '_parent', None)
        while p is not None and p is not fn:
            if isinstance(p, (ast.If, ast.While, ast.For, ast.With, ast.ExceptHandler, ast.IfExp, ast.BoolOp)):
                return False
            child, p = p, getattr(p, '_parent', None)
        return True
    changed = True
    while changed:
        changed = False
        for name, m in methods.items():
            if name in fam or name in entry_points or not name.startswith('_'):
                continue
            if any(unparse(c.func).startswith('self.') and unparse(c.func)[5:] in fam and unconditional(c, m) for c in calls_in(m)):
                fam.add(name)
                changed = True
    return fam


def dominated_by_conn_absent(call, fn):
    """The call sits in the true-branch of `not hasattr(self,'conn')` (or after an
    early return on hasattr(self,'conn'))."""
    child, p = call, getattr(call, '_parent', None)
    while p is not None and p is not fn:
        if isinstance(p, ast.If):
            t = test_text(p.test)
            in_body = any(child is s for s in p.body)
            if 'conn' in t and 'hasattr' in t:
                neg = t.startswith('not ')
                if (neg and in_body) or (not neg and not in_body):
                    return True
        child, p = p, getattr(p, '_parent', None)
    return early_return_guard(call, fn, lambda t: 'conn' in t and 'hasattr' in t and not t.startswith('not '))


def early_return_guard(node, fn, pred, need_lock=False):
    """Some `if <pred>: return` statement precedes `node` in the same block chain."""
    st = stmt_of(node)
    while st is not None and st is not fn:
        parent = getattr(st, '_parent', None)
        for field in ('body', 'orelse', 'finalbody'):
            block = getattr(parent, field, None)
            if isinstance(block, list) and any(st is s for s in block):
                for s in block:
                    if s is st:
                        break
                    if isinstance(s, ast.If) and pred(test_text(s.test)) and always_exits(s.body, (ast.Return,)) \
                            and (not need_lock or holds_lock(s, fn)):
                        return True
        st = parent if isinstance(parent, ast.stmt) else None
    return False


def starter_joined_before(call, fn):
    """A `.join()` on the starter handle occurs earlier in the same locked region."""
    def is_join(c, depth=0):
        if isinstance(c.func, ast.Attribute) and c.func.attr == 'join':
            return True
        # a helper method of the same class that joins the starter
        f = unparse(c.func)
        helper = METHODS.get(f[5:]) if f.startswith('self.') else None
        return helper is not None and depth < 3 and any(is_join(x, depth + 1) for x in calls_in(helper))
    joins = [c for c in calls_in(fn) if is_join(c)]
    if any((j.lineno, j.col_offset) < (call.lineno, call.col_offset) and holds_lock(j, fn) for j in joins):
        return True
    # ... or the call sits in the body of `with self.<manager>():` whose manager joins the starter under the lock before it yields
    for m, ys in entered_managers(call, fn):
        first = min((y.lineno, y.col_offset) for y in ys)
        if any(is_join(c) and (c.lineno, c.col_offset) < first and holds_lock(c, m) for c in calls_in(m)):
            return True
    return False


def check_then_act(methods, attr, accesses):
    """Within one method: two reads of self.<attr> on one path with no own write between."""
    bad = []
    by_m = {}
    for cname, m, locked, kind, node in accesses:
        by_m.setdefault(m, []).append((kind, node))
    for m, lst in sorted(by_m.items()):
        # order accesses in evaluation order (source order is evaluation order for these forms)
        lst = sorted({id(n): (k, n) for k, n in lst}.values(), key=lambda kn: (kn[1].lineno, kn[1].col_offset))
        last_read = None
        for kind, node in lst:
            if kind in 'wd':
                last_read = None
                continue
            if last_read is not None and on_same_path(last_read, node, methods[m]):
                bad.append((m, last_read, node))
                break
            last_read = node
    return bad


def on_same_path(a, b, fn):
    """b can execute after a: b is inside the body of the If whose test holds a, or
    follows a in straight-line code."""
    sa = stmt_of(a)
    if isinstance(sa, ast.If) and any(a is n for n in ast.walk(sa.test)):
        if any(b is n for s in sa.body + sa.orelse for n in ast.walk(s)):
            # b in body: always after the test
            return True
    sb = stmt_of(b)
    if sa is sb:
        return True
    # sequential: find common block
    pa = getattr(sa, '_parent', None)
    chain = []
    x = sb
    while x is not None and x is not fn:
        chain.append(x)
        x = getattr(x, '_parent', None)
    for field in ('body', 'orelse', 'finalbody'):
        block = getattr(pa, field, None)
        if isinstance(block, list) and any(sa is s for s in block):
            idx = [i for i, s in enumerate(block) if s is sa][0]
            for later in block[idx + 1:]:
                if later in chain:
                    # unless a's statement always leaves (return) before
                    return not always_exits([sa], (ast.Return, ast.Raise))
    return False


# ---------------------------------------------------------------------------

def check_arity(repo, res, facts):
    n_calls = n_resolved = 0
    for rel, tree in sorted(repo.trees.items()):
        for c in ast.walk(tree):
            if not isinstance(c, ast.Call):
                continue
            n_calls += 1
            targets = resolve_callee(facts, rel, c)
            if not targets:
                continue
            if any(isinstance(a, ast.Starred) for a in c.args) or any(k.arg is None for k in c.keywords):
                continue
            n_resolved += 1
            errs = []
            for kind, fn, bound in targets:
                e = arity_error(fn, c, bound)
                if e:
                    errs.append('%s: %s' % (fn.name, e))
            ok = not errs or len(errs) < len(targets)
            if len(errs) == len(targets):
                owner = facts.func_of(c)
                res.check('C16-R4', '%s calls %s' % (owner.qual if owner else rel, unparse(c.func)), False, rel,
                          c.lineno, 'call `%s` does not match the signature of any function it resolves '
                          'to (%s): raises TypeError whenever executed' % (norm_stmt(c), '; '.join(errs)))
            else:
                res.ob('C16-R4', '%s:%s' % (rel, unparse(c.func)), True, nontrivial=False,
                       sample='%s -> %s' % (norm_stmt(c)[:70], ', '.join(t[1].name for t in targets)))
    return n_calls, n_resolved


def resolve_callee(facts, rel, c):
    """-> list of (kind, FunctionDef node, bound_self: bool)"""
    f = c.func
    out = []
    if isinstance(f, ast.Name):
        # shadowed by a local/parameter?
        owner = facts.func_of(c)
        fn = owner.node if owner else None
        if fn is not None:
            local = {a.arg for a in fn.args.args + fn.args.kwonlyargs + fn.args.posonlyargs}
            for n in ast.walk(fn):
                if isinstance(n, ast.Name) and isinstance(n.ctx, ast.Store):
                    local.add(n.id)
                if isinstance(n, (ast.FunctionDef, ast.ClassDef)) and n is not fn:
                    local.add(n.name)
            globs = {g for n in ast.walk(fn) if isinstance(n, ast.Global) for g in n.names}
            if f.id in local - globs:
                return []
        for t in facts.resolve_name(rel, f.id):
            if isinstance(t, FuncInfo):
                out.append(('func', t.node, t.cls is not None))
            elif isinstance(t, ClassInfo):
                init = t.lookup('__init__')
                if init:
                    out.append(('ctor', init.node, True))
    elif isinstance(f, ast.Attribute) and isinstance(f.value, ast.Name):
        if f.value.id == 'self':
            cls = None
            owner = facts.func_of(c)
            if owner and owner.cls:
                cands = [owner.cls] + owner.cls.all_subclasses()
                seen = set()
                for k in cands:
                    m = k.lookup(f.attr)
                    if m and id(m.node) not in seen and not m.is_property:
                        seen.add(id(m.node))
                        if 'context_property' in m.decorators or 'staticmethod' in m.decorators:
                            continue
                        out.append(('method', m.node, True))
                # attribute assigned in instance (callable field)? then unknown
                if any(f.attr in k.init_attrs | k.other_attrs for k in cands):
                    return []
        else:
            for t in facts.resolve_module_attr(rel, f.value.id, f.attr):
                if isinstance(t, FuncInfo):
                    out.append(('func', t.node, False))
                elif isinstance(t, ClassInfo):
                    init = t.lookup('__init__')
                    if init:
                        out.append(('ctor', init.node, True))
            # Base.__init__(self, ...) explicit base call
            k = facts.classes.get(f.value.id)
            if k is not None and not out:
                m = k.lookup(f.attr)
                if m and not m.is_property:
                    out.append(('unbound', m.node, False))
    return out


def arity_error(fn, call, bound):
    a = fn.args
    pos = [x.arg for x in a.posonlyargs + a.args]
    if bound and pos:
        pos = pos[1:]
    ndef = len(a.defaults)
    required = pos[:len(pos) - ndef] if ndef else pos[:]
    npos = len(call.args)
    if npos > len(pos) and a.vararg is None:
        return 'takes %d positional argument(s), %d given' % (len(pos), npos)
    kwnames = [k.arg for k in call.keywords]
    kwonly = [x.arg for x in a.kwonlyargs]
    for k in kwnames:
        if k not in pos and k not in kwonly and a.kwarg is None:
            return 'unexpected keyword %r' % k
        if k in pos[:npos]:
            return 'multiple values for %r' % k
    missing = [p for p in required[npos:] if p not in kwnames]
    if missing:
        return 'missing %s' % missing
    for x, d in zip(a.kwonlyargs, a.kw_defaults):
        if d is None and x.arg not in kwnames:
            return 'missing keyword-only %r' % x.arg
    return None
