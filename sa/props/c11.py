"""C11 -- every reported position points at the identifier it names.
Decides provenance (parser-given positions for targets, parameters and except
clauses; positions copied unmodified to every entry point).  The text-searched
kinds (import aliases, def and class names) are NOT decided by this family.
"""
import ast

from ..core import AnalysisError, unparse
from .. import rules_e1 as R
from .. import pyref
from ..e1 import loc_kind

EXPLANATION = (
    'Static provenance analysis of reported positions. R1 (E1): for every binder whose identifier has an '
    'ast node of its own (assignment/for/with/comprehension/walrus Name targets incl. nested and starred, '
    'all parameter kinds, except clauses) the declared_at stored with the binding is exactly '
    '(node.lineno, node.col_offset) of that node with no arithmetic - CPython guarantees this is the first '
    'character of the identifier (of the except keyword for handlers) on ASCII lines; R2 lint, location '
    'and all_names hand out the stored declared_at itself (no arithmetic, no other field) paired with the '
    "same object's filename, so every entry point reports the same position; R3 the kinds without "
    'a node of their own (import aliases, def, class) obtain declared_at from the identifier text search (the method of '
    'SourceScope or Source that hands its first parameter to str.find, wherever it lives) started at the statement, whose '
    'fallback is the statement start and whose delimiter sets hold no identifier character, or from an expression over parser '
    'positions and identifier lengths; either way the position is computed on a corpus of 39 layouts (CRLF, continuation lines, '
    'comments, keywords as prefixes) by interpreting supp\'s own code and must read the bound identifier there. Layouts outside '
    'the corpus are NOT decided (string-valued question).')
TECHNIQUE = 'position-provenance analysis on visitor summaries (abstract interpretation) + copy/derivation rules'

LINTER = 'supp/linter.py'
ASSIST = 'supp/assistant.py'
SCOPE = 'supp/scope.py'


def run(repo, res):
    from .. import api_model
    _ns, _np = R.shape_stats(repo)
    res.extra['e1_shapes_interpreted'] = _ns
    res.extra['e1_shape_paths_interpreted'] = _np
    brecs = R.binder_records(repo)
    n1 = n3 = 0
    for (cls, kind, path), r in sorted(brecs.items()):
        if r['n'] == 0 or r['missing']:
            continue
        key = '%s %s %s' % (R.method_name(repo, cls), kind, path)
        kinds = set()
        bad = []
        for s, bp, binder, b in r['binds']:
            lk = loc_kind(b.get('declared_at'))
            kinds.add(lk[0])
            if kind in pyref.PARSER_POSITIONED:
                own = binder['own']
                if not (lk[0] == 'np' and own is not None and lk[1] == own.path):
                    bad.append((s.variant, lk[:2], own.path if own is not None else None))
            else:
                # text-searched kinds: search must start at the statement and look for this identifier
                # (or be computed from parser positions and identifier lengths: that form is evaluated on the layout corpus below)
                ok = lk[0] == 'text_search' and lk[1] == 'node' and lk[2] is not None \
                    and str(lk[2][0]).strip() == binder['ident'] or lk[0] in ('np', 'arith')
                if not ok:
                    bad.append((s.variant, lk, 'text search from the statement start for %r' % binder['ident']))
        if kind in pyref.PARSER_POSITIONED:
            n1 += 1
            res.check('C11-R1', key, not bad, r['line'][0], r['line'][1],
                      'declared_at of %s must be the parser position of the identifier\'s own node; found %s'
                      % (key, bad[:2]), sample='%s: declared_at = np(identifier node)' % key)
        else:
            n3 += 1
            res.check('C11-R3', key, not bad, r['line'][0], r['line'][1],
                      'declared_at of %s (no node of its own) must come from find_id_loc started at the statement, '
                      'searching the bound identifier, or be computed from parser positions; found %s' % (key, bad[:2]),
                      sample='%s: declared_at = find_id_loc(identifier, np(statement))' % key)
    # the text search itself, interpreted with the visitors' call shape on a corpus of layouts
    from .. import textsearch
    api_model.apply(res, textsearch.model(repo), {'text': 'C11-R3', 'text-count': 'C11-R3'}, SCOPE, 0)
    # the unit of columns: supp's own Source.tree on texts with non-ASCII characters in front of identifiers
    api_model.apply(res, api_model.column_unit_model(repo), {'columns': 'C11-R1'}, 'supp/util.py', 0)
    # a search string must be one token: white space (or a line continuation) may separate any two tokens of the grammar
    hyg = R.binding_hygiene_records(repo)
    seen_g = set()
    for cls, variant, search, ident, line in hyg['glued']:
        k = '%s searches %r for the identifier %s' % (R.method_name(repo, cls), search.replace(ident, '<name>'), '<name>')
        if k in seen_g:
            continue
        seen_g.add(k)
        res.check('C11-R3', k, False, line[0], line[1],
                  'on %s shape `%s` the position of `%s` is searched with the string %r, which glues another token (or a blank) to the '
                  'identifier: any other white space between the two tokens makes the search fail and the position fall back to the '
                  'statement start' % (cls, variant, ident, search))
    res.ob('C11-R3', 'search strings are bare identifiers', not hyg['glued'], sample='%d shape paths' % hyg['n'])
    res.count('parser_positioned_binders', n1, floor=35)
    res.count('text_searched_binders', n3, floor=5)
    # fallback of the text search is the statement start
    from ..absint import Interp
    from ..facts import get_facts
    from .. import textsearch as _ts
    import string as _string
    it = Interp(repo, get_facts(repo))
    ident_chars = set(_string.ascii_letters + _string.digits + '_')
    for hrel, hcls, hname, fid in _ts.search_helpers(repo):
        start_param = fid.args.args[2].arg
        frets = [r for r in ast.walk(fid) if isinstance(r, ast.Return) and r.value is not None]
        fallback = [r for r in frets if unparse(r.value) == start_param]
        other = [r for r in frets if unparse(r.value) != start_param]
        res.check('C11-R3', '%s fallback' % hname, bool(fallback) and len(other) == 1, hrel, fid.lineno,
                  '%s.%s must return either the found position or, when the identifier is not found, the statement start '
                  '(returns: %s)' % (hcls, hname, [unparse(r.value)[:40] for r in frets]))
        # the delimiter sets of the text search must not contain identifier characters: otherwise a longer identifier that
        # merely starts or ends with the searched name is accepted as the name
        used = sorted({n.id for n in ast.walk(fid) if isinstance(n, ast.Name) and n.id.isupper()})
        for const in used:
            try:
                val = it.lookup_global(hrel, const)
            except Exception:
                val = None
            if not isinstance(val, str):
                continue
            overlap = sorted(set(val) & ident_chars)
            res.check('C11-R3', '%s delimiter set %s' % (hname, const), not overlap, hrel, fid.lineno,
                      'the delimiter set %s of the identifier text search contains identifier characters %s: `import json_tool, json` '
                      'then finds "json" inside "json_tool" and reports that position' % (const, overlap),
                      sample='%s contains no identifier character' % const)

    # ---- R2 positions are copied --------------------------------------------------------------
    uses = []
    for rel in (LINTER, ASSIST, 'supp/evaluator.py', 'supp/server.py'):
        for nd in ast.walk(repo.tree(rel)):
            if isinstance(nd, ast.Attribute) and nd.attr == 'declared_at' and isinstance(nd.ctx, ast.Load):
                uses.append((rel, nd))
    for rel, nd in uses:
        p = getattr(nd, '_parent', None)
        ok = True
        why = ''
        if isinstance(p, ast.Subscript):
            idx = p.slice
            ok = isinstance(idx, ast.Constant) and idx.value in (0, 1)
            pp = getattr(p, '_parent', None)
            if isinstance(pp, (ast.BinOp, ast.UnaryOp, ast.AugAssign)):
                ok, why = False, 'arithmetic on a component'
        elif isinstance(p, (ast.BinOp, ast.UnaryOp)):
            ok, why = False, 'arithmetic'
        res.check('C11-R2', '%s uses declared_at at %s' % (rel.split('/')[-1], unparse(p)[:40]), ok, rel, nd.lineno,
                  'a reported position must be the stored declared_at itself (%s in `%s`)' % (why, unparse(p)),
                  nontrivial=False)
    res.count('declared_at_uses', len(uses), floor=2)
    lint = repo.module_func(LINTER, 'lint')
    from .. import api_model
    api_model.apply(res, api_model.lint_model(repo), {'fields': 'C11-R2', 'once': 'C11-R2'}, LINTER, lint.lineno)
    loc = repo.module_func(ASSIST, 'location')
    api_model.apply(res, api_model.location_model(repo), {'pairs': 'C11-R2', 'marker-shift': 'C11-R2'}, ASSIST, loc.lineno)
    api_model.apply(res, api_model.all_names_model(repo), {'all_names': 'C11-R2'}, SCOPE, 0)
    res.note('import aliases, def and class names obtain their position by text search (find_id_loc): C11 is not '
             'decided for them by this family (e.g. `async def d():` or `from foo import bar as foo` layouts).')
    res.assumptions.extend(['CPython: (lineno, col_offset) of Name/arg/ExceptHandler nodes is the first character of '
                            'the identifier / except keyword (ASCII-only lines, per the property domain)'])
