#!/bin/bash
# mut.sh <prop> <file> <python-re-pattern> <replacement>  : apply one textual mutation to a scratch copy and run a check
prop=$1; file=$2; pat=$3; rep=$4
d=$(mktemp -d /tmp/mut.XXXXXX)
cp -r /repo/supp /repo/supp-lint /repo/supp-find $d/
/venv/bin/python - "$d/$file" "$pat" "$rep" <<'PY'
import sys,re
p,pat,rep=sys.argv[1:4]
s=open(p).read()
n=re.subn(pat,rep,s,count=1,flags=re.S)
assert n[1]==1,'pattern not found'
open(p,'w').write(n[0])
PY
[ $? -eq 0 ] || { rm -rf $d; exit 9; }
SA_REPO=$d SA_EVIDENCE_DIR=$d/ev SA_OUT_DIR=$d/out /verif/check $prop | grep -E '^  |ANALYSIS|obligations' | cut -c1-220 | head -${5:-6}
echo "rc=${PIPESTATUS[0]}"
rm -rf $d
